//! The only source of randomness in the simulator: splitmix64 for seed derivation and
//! xoshiro256** per run. Nothing in here reads a clock, an address or OS entropy.

#[inline]
pub fn splitmix64(x: u64) -> u64 {
    let mut z = x.wrapping_add(0x9E37_79B9_7F4A_7C15);
    z = (z ^ (z >> 30)).wrapping_mul(0xBF58_476D_1CE4_E5B9);
    z = (z ^ (z >> 27)).wrapping_mul(0x94D0_49BB_1331_11EB);
    z ^ (z >> 31)
}

/// FNV-1a over a tag string; used to give every property / stream its own seed space.
pub fn tag(s: &str) -> u64 {
    let mut h: u64 = 0xcbf2_9ce4_8422_2325;
    for b in s.bytes() {
        h ^= b as u64;
        h = h.wrapping_mul(0x0000_0100_0000_01B3);
    }
    h
}

/// Seed of run `i` of stream `stream` under the global VERIF_SEED.
pub fn run_seed(verif_seed: u64, stream: &str, i: u64) -> u64 {
    splitmix64(splitmix64(verif_seed ^ tag(stream)).wrapping_add(i.wrapping_mul(0x9E37_79B9_7F4A_7C15)))
}

#[derive(Clone, Debug)]
pub struct Rng {
    s: [u64; 4],
}

impl Rng {
    pub fn new(seed: u64) -> Self {
        let mut x = seed;
        let mut s = [0u64; 4];
        for v in s.iter_mut() {
            x = splitmix64(x);
            *v = x;
        }
        if s == [0; 4] {
            s[0] = 1;
        }
        Rng { s }
    }

    #[inline]
    pub fn next_u64(&mut self) -> u64 {
        let result = self.s[1].wrapping_mul(5).rotate_left(7).wrapping_mul(9);
        let t = self.s[1] << 17;
        self.s[2] ^= self.s[0];
        self.s[3] ^= self.s[1];
        self.s[1] ^= self.s[2];
        self.s[0] ^= self.s[3];
        self.s[2] ^= t;
        self.s[3] = self.s[3].rotate_left(45);
        result
    }

    /// Uniform in `0..n` (n > 0). Multiply-shift; the tiny bias is irrelevant here.
    #[inline]
    pub fn below(&mut self, n: u64) -> u64 {
        debug_assert!(n > 0);
        ((self.next_u64() as u128 * n as u128) >> 64) as u64
    }

    #[inline]
    pub fn usize_below(&mut self, n: usize) -> usize {
        self.below(n as u64) as usize
    }

    /// Uniform in `lo..=hi`.
    #[inline]
    pub fn range(&mut self, lo: u64, hi: u64) -> u64 {
        debug_assert!(lo <= hi);
        if lo == 0 && hi == u64::MAX {
            return self.next_u64();
        }
        lo + self.below(hi - lo + 1)
    }

    /// True with probability `num/den`.
    #[inline]
    pub fn chance(&mut self, num: u64, den: u64) -> bool {
        self.below(den) < num
    }

    pub fn pick<'a, T>(&mut self, xs: &'a [T]) -> &'a T {
        &xs[self.usize_below(xs.len())]
    }

    /// Small numbers most of the time, occasionally up to `max`.
    pub fn skewed(&mut self, max: u64) -> u64 {
        if max == 0 {
            return 0;
        }
        match self.below(10) {
            0..=5 => self.range(0, max.min(3)),
            6..=8 => self.range(0, max.min(10)),
            _ => self.range(0, max),
        }
    }

    pub fn shuffle<T>(&mut self, xs: &mut [T]) {
        for i in (1..xs.len()).rev() {
            let j = self.usize_below(i + 1);
            xs.swap(i, j);
        }
    }
}

/// Order-sensitive 64-bit digest used for event logs and byte strings.
#[derive(Clone, Copy, Debug)]
pub struct Digest(pub u64);

impl Default for Digest {
    fn default() -> Self {
        Digest(0x6a09_e667_f3bc_c908)
    }
}

impl Digest {
    #[inline]
    pub fn u64(&mut self, v: u64) {
        self.0 = splitmix64(self.0 ^ v).rotate_left(23).wrapping_mul(0x2545_F491_4F6C_DD1D);
    }
    pub fn bytes(&mut self, b: &[u8]) {
        self.u64(b.len() as u64);
        let mut chunks = b.chunks_exact(8);
        for c in &mut chunks {
            self.u64(u64::from_le_bytes(c.try_into().unwrap()));
        }
        let r = chunks.remainder();
        if !r.is_empty() {
            let mut last = [0u8; 8];
            last[..r.len()].copy_from_slice(r);
            self.u64(u64::from_le_bytes(last));
        }
    }
    pub fn str(&mut self, s: &str) {
        self.bytes(s.as_bytes());
    }
    pub fn finish(&self) -> u64 {
        splitmix64(self.0)
    }
}

pub fn digest_bytes(b: &[u8]) -> u64 {
    let mut d = Digest::default();
    d.bytes(b);
    d.finish()
}
