//! pgsim — deterministic simulation with fault injection for getsentry/rust-proguard.
//! One binary, one subcommand per property engine. Exit codes: 0 held, 1 violation, 2 harness error.

mod api;
mod c10;
mod c11;
mod c12;
mod c14;
mod c15;
mod c20;
mod sched;
mod common;
mod gen;
mod layout;
mod rng;
mod sink;
mod universe;

use common::*;

fn usage() -> i32 {
    eprintln!("usage: pgsim <c10|c11|c12|c14|c15|c20|replay FILE|gen-sample> [--tier quick|thorough] [--seed N] [--workers N] [--scale F]");
    2
}

fn real_main() -> i32 {
    let args: Vec<String> = std::env::args().skip(1).collect();
    if args.is_empty() {
        return usage();
    }
    install_quiet_panic_hook();
    if !args[0].starts_with("miri-") {
        install_crash_handler();
    }
    let env = Env::from_env_and_args(&args[1..]);
    match args[0].as_str() {
        "c10" => c10::main(&env),
        "c11" => c11::main(&env),
        "c12" => match arg_value(&args, "--dump-case") {
            Some(r) => {
                let i = args.iter().position(|a| a == "--dump-case").unwrap();
                let case: usize = args.get(i + 2).and_then(|x| x.parse().ok()).unwrap_or(0);
                let sig: u64 = arg_value(&args, "--signal").and_then(|x| x.parse().ok()).unwrap_or(0);
                c12::dump_case(&env, r.parse().unwrap_or(0), case, sig)
            }
            None => c12::main(&env),
        },
        "c14" => c14::main(&env),
        "c14-child" => c14::child_main(&args[1..]),
        "miri-c12" => c12::miri_main(&args[1..]),
        "miri-c14" => c14::miri_main(&args[1..]),
        "c15" => c15::main(&env),
        "c20" => c20::main(&env),
        "c20-capacity" => c20::capacity_main(&env),
        "miri-c20" => c20::miri_main(&args[1..]),
        "miri-noop" => {
            println!("MIRI-NOOP ok");
            0
        }
        "replay" => {
            let Some(path) = args.get(1) else { return usage() };
            let Ok(text) = std::fs::read_to_string(path) else {
                eprintln!("cannot read {}", path);
                return 2;
            };
            let Ok(doc) = serde_json::from_str::<serde_json::Value>(&text) else {
                eprintln!("replay file is not JSON");
                return 2;
            };
            let code = match (doc["property"].as_str(), doc["engine"].as_str()) {
                (Some("C10"), _) => c10::replay(&doc),
                (Some("C11"), _) => c11::replay(&doc),
                (Some("C12"), Some("disk")) => c12::replay(&doc),
                (Some("C14"), Some("processes")) => c14::replay(&doc),
                (Some("C15"), _) => c15::replay(&doc),
                (Some("C20"), Some("threads")) => c20::replay(&doc),
                _ => {
                    eprintln!("unknown property/engine in replay file");
                    2
                }
            };
            if code == 1 {
                println!("VIOLATION property={} replay={}", doc["property"].as_str().unwrap_or("?"), path);
            }
            code
        }
        "gen-sample" => {
            let mut rng = rng::Rng::new(rng::run_seed(env.seed, "sample", 0));
            for i in 0..3 {
                let (cfg, m) = gen::gen_case(&mut rng, 6, 8);
                println!("--- sample {} cfg={:?}\n{}", i, cfg, String::from_utf8_lossy(&m));
                let q = universe::universe(&m, &mut rng, &universe::UniCfg { lines_full: false, cap: 100000, compound: true });
                println!("universe: {} queries", q.len());
            }
            0
        }
        _ => usage(),
    }
}

fn main() {
    // A panic in the harness itself (not inside a guarded library call) is a harness error.
    let code = match std::panic::catch_unwind(real_main) {
        Ok(c) => c,
        Err(_) => {
            let last = common::LAST_PANIC_GLOBAL.lock().ok().and_then(|g| g.clone()).unwrap_or_default();
            eprintln!("pgsim: internal harness error (panic outside a guarded library call): {}", last);
            2
        }
    };
    std::process::exit(code);
}
