//! The finite query universe derived from a mapping file. Names are discovered with the
//! *pinned* release's record iterator, so the universe does not move when the working tree does.

use crate::rng::Rng;
use proguard_pinned as pp;
use std::collections::BTreeMap;

#[derive(Clone, Debug, PartialEq, Eq, Hash)]
pub enum Query {
    Class(String),
    Method(String, String),
    FrameLine { class: String, method: String, line: usize, file: Option<String> },
    FrameParams { class: String, method: String, params: String },
    Throwable { class: String, msg: Option<String> },
    TraceText(String),
    TraceTyped(String),
    Signature(String),
    /// queries on the shared `ProguardMapping` handle (C20 workload only)
    MapUuid,
    MapSummary,
    MapHasLineInfo,
    MapIsValid,
    /// summary / has_line_info / is_valid / uuid of `mapping.section(0..k)`
    MapSection(usize),
}

impl Query {
    /// Is this one of the four primitive lookups that read the file directly?
    pub fn is_primitive(&self) -> bool {
        matches!(
            self,
            Query::Class(_) | Query::Method(..) | Query::FrameLine { .. } | Query::FrameParams { .. }
        )
    }

    pub fn describe(&self) -> String {
        match self {
            Query::Class(c) => format!("remap_class({:?})", c),
            Query::Method(c, m) => format!("remap_method({:?},{:?})", c, m),
            Query::FrameLine { class, method, line, file } => {
                format!("remap_frame({:?},{:?},line={},file={:?})", class, method, line, file)
            }
            Query::FrameParams { class, method, params } => {
                format!("remap_frame({:?},{:?},params={:?})", class, method, params)
            }
            Query::Throwable { class, msg } => format!("remap_throwable({:?},{:?})", class, msg),
            Query::TraceText(t) => format!("remap_stacktrace({:?})", t),
            Query::TraceTyped(t) => format!("remap_stacktrace_typed(parse({:?}))", t),
            Query::Signature(s) => format!("deobfuscate_signature({:?})", s),
            Query::MapUuid => "mapping.uuid()".into(),
            Query::MapSummary => "mapping.summary()".into(),
            Query::MapHasLineInfo => "mapping.has_line_info()".into(),
            Query::MapIsValid => "mapping.is_valid()".into(),
            Query::MapSection(k) => format!("mapping.section(0..{}).{{summary,has_line_info,is_valid,uuid}}()", k),
        }
    }

    /// Address ranges of the strings the query owns (C12: a returned `&str` may alias these).
    pub fn ranges(&self, out: &mut Vec<(usize, usize)>) {
        let mut add = |s: &str| out.push((s.as_ptr() as usize, s.len()));
        match self {
            Query::Class(c) => add(c),
            Query::Method(c, m) => {
                add(c);
                add(m)
            }
            Query::FrameLine { class, method, file, .. } => {
                add(class);
                add(method);
                if let Some(f) = file {
                    add(f)
                }
            }
            Query::FrameParams { class, method, params } => {
                add(class);
                add(method);
                add(params)
            }
            Query::Throwable { class, msg } => {
                add(class);
                if let Some(m) = msg {
                    add(m)
                }
            }
            Query::TraceText(t) | Query::TraceTyped(t) | Query::Signature(t) => add(t),
            Query::MapUuid | Query::MapSummary | Query::MapHasLineInfo | Query::MapIsValid | Query::MapSection(_) => {}
        }
    }

    pub fn to_json(&self) -> serde_json::Value {
        use serde_json::json;
        match self {
            Query::Class(c) => json!({"k":"class","class":c}),
            Query::Method(c, m) => json!({"k":"method","class":c,"method":m}),
            Query::FrameLine { class, method, line, file } => {
                json!({"k":"frame_line","class":class,"method":method,"line":line.to_string(),"file":file})
            }
            Query::FrameParams { class, method, params } => {
                json!({"k":"frame_params","class":class,"method":method,"params":params})
            }
            Query::Throwable { class, msg } => json!({"k":"throwable","class":class,"msg":msg}),
            Query::TraceText(t) => json!({"k":"trace_text","text":t}),
            Query::TraceTyped(t) => json!({"k":"trace_typed","text":t}),
            Query::Signature(s) => json!({"k":"signature","sig":s}),
            Query::MapUuid => json!({"k":"map_uuid"}),
            Query::MapSummary => json!({"k":"map_summary"}),
            Query::MapHasLineInfo => json!({"k":"map_has_line_info"}),
            Query::MapIsValid => json!({"k":"map_is_valid"}),
            Query::MapSection(k) => json!({"k":"map_section","end":k}),
        }
    }

    pub fn from_json(v: &serde_json::Value) -> Option<Query> {
        let s = |k: &str| v.get(k).and_then(|x| x.as_str()).map(|x| x.to_string());
        Some(match v.get("k")?.as_str()? {
            "class" => Query::Class(s("class")?),
            "method" => Query::Method(s("class")?, s("method")?),
            "frame_line" => Query::FrameLine {
                class: s("class")?,
                method: s("method")?,
                line: s("line")?.parse().ok()?,
                file: s("file"),
            },
            "frame_params" => Query::FrameParams { class: s("class")?, method: s("method")?, params: s("params")? },
            "throwable" => Query::Throwable { class: s("class")?, msg: s("msg") },
            "trace_text" => Query::TraceText(s("text")?),
            "trace_typed" => Query::TraceTyped(s("text")?),
            "signature" => Query::Signature(s("sig")?),
            "map_uuid" => Query::MapUuid,
            "map_summary" => Query::MapSummary,
            "map_has_line_info" => Query::MapHasLineInfo,
            "map_is_valid" => Query::MapIsValid,
            "map_section" => Query::MapSection(v.get("end")?.as_u64()? as usize),
            _ => return None,
        })
    }
}

#[derive(Clone, Debug, Default)]
pub struct MethodInfo {
    pub args: Vec<String>,
    pub ranges: Vec<(usize, usize)>,
}

#[derive(Clone, Debug, Default)]
pub struct ClassInfo {
    pub obf: String,
    pub orig: String,
    pub methods: BTreeMap<String, MethodInfo>,
}

/// Scan a mapping with the pinned release's parser.
pub fn scan(mapping: &[u8]) -> Vec<ClassInfo> {
    let m = pp::ProguardMapping::new(mapping);
    let mut classes: Vec<ClassInfo> = Vec::new();
    for rec in m.iter() {
        match rec {
            Ok(pp::ProguardRecord::Class { original, obfuscated }) => {
                classes.push(ClassInfo { obf: obfuscated.to_string(), orig: original.to_string(), methods: BTreeMap::new() });
            }
            Ok(pp::ProguardRecord::Method { obfuscated, arguments, line_mapping, .. }) => {
                if let Some(c) = classes.last_mut() {
                    let mi = c.methods.entry(obfuscated.to_string()).or_default();
                    if !mi.args.iter().any(|a| a == arguments) {
                        mi.args.push(arguments.to_string());
                    }
                    if let Some(lm) = line_mapping {
                        mi.ranges.push((lm.startline, lm.endline));
                    }
                }
            }
            _ => {}
        }
    }
    classes
}

pub const EXTREME_LINES: &[usize] =
    &[0, 1, (1usize << 32) - 2, (1usize << 32) - 1, 1usize << 32, usize::MAX - 1, usize::MAX];

#[derive(Clone, Debug)]
pub struct UniCfg {
    /// all lines 0..=66 for every (class, method) instead of a sample
    pub lines_full: bool,
    /// upper bound on the number of queries (sampled with the run's rng beyond that)
    pub cap: usize,
    /// include the compound APIs (throwable / traces / signatures)
    pub compound: bool,
}

fn near_misses(name: &str, out: &mut Vec<String>) {
    out.push(format!("{}x", name));
    if let Some((i, _)) = name.char_indices().last() {
        out.push(name[..i].to_string());
    }
    out.push(name.to_uppercase());
}

/// Build the query universe of one mapping file.
pub fn universe(mapping: &[u8], rng: &mut Rng, cfg: &UniCfg) -> Vec<Query> {
    let classes = scan(mapping);
    let mut q: Vec<Query> = Vec::new();

    let mut class_names: Vec<String> = Vec::new();
    for c in &classes {
        if !class_names.contains(&c.obf) {
            class_names.push(c.obf.clone());
        }
    }
    let mut extra: Vec<String> = vec!["".into(), "zzz.unknown".into(), "a".into(), "a.a".into()];
    for (i, c) in classes.iter().enumerate() {
        if i < 8 || rng.chance(1, 8) {
            near_misses(&c.obf, &mut extra);
            extra.push(c.orig.clone());
        }
    }
    for c in class_names.iter().chain(extra.iter()) {
        q.push(Query::Class(c.clone()));
        if cfg.compound {
            q.push(Query::Throwable { class: c.clone(), msg: if rng.chance(1, 2) { Some("boom: x".into()) } else { None } });
        }
    }

    // per class: merged method table (duplicate class names are merged for query purposes)
    let mut merged: BTreeMap<String, BTreeMap<String, MethodInfo>> = BTreeMap::new();
    for c in &classes {
        let e = merged.entry(c.obf.clone()).or_default();
        for (m, mi) in &c.methods {
            let t = e.entry(m.clone()).or_default();
            for a in &mi.args {
                if !t.args.contains(a) {
                    t.args.push(a.clone());
                }
            }
            t.ranges.extend(mi.ranges.iter().cloned());
        }
    }
    let all_methods: Vec<String> = {
        let mut v: Vec<String> = Vec::new();
        for ms in merged.values() {
            for m in ms.keys() {
                if !v.contains(m) {
                    v.push(m.clone());
                }
                if v.len() > 24 {
                    break;
                }
            }
        }
        v
    };
    let mut frame_texts: Vec<String> = Vec::new();
    for (cname, methods) in &merged {
        let mut mnames: Vec<String> = methods.keys().cloned().collect();
        mnames.push("nope".into());
        mnames.push("".into());
        if let Some(m) = all_methods.get(rng.usize_below(all_methods.len().max(1))) {
            if !mnames.contains(m) {
                mnames.push(m.clone());
            }
        }
        for m in &mnames {
            q.push(Query::Method(cname.clone(), m.clone()));
            let info = methods.get(m);
            // lines
            let mut lines: Vec<usize> = EXTREME_LINES.to_vec();
            if cfg.lines_full {
                lines.extend(0..=66usize);
            } else {
                for _ in 0..4 {
                    lines.push(rng.range(0, 66) as usize);
                }
            }
            if let Some(info) = info {
                for (s, e) in &info.ranges {
                    for l in [s.wrapping_sub(1), *s, s.wrapping_add(1), e.wrapping_sub(1), *e, e.wrapping_add(1)] {
                        lines.push(l);
                    }
                    if e > s {
                        lines.push(s + (e - s) / 2);
                    }
                }
                // the same lines shifted by multiples of 2^32 (a reader that truncates the frame line)
                #[cfg(target_pointer_width = "64")]
                for (s, e) in info.ranges.iter().take(3) {
                    lines.push((1usize << 32) + *s);
                    lines.push((1usize << 32) + *e);
                    lines.push((3usize << 32) + s + (e.saturating_sub(*s)) / 2);
                }
            }
            lines.sort_unstable();
            lines.dedup();
            for l in &lines {
                let file = match l % 3 {
                    0 => None,
                    1 => Some("SourceFile".to_string()),
                    _ => Some("Q.java".to_string()),
                };
                q.push(Query::FrameLine { class: cname.clone(), method: m.clone(), line: *l, file });
            }
            if frame_texts.len() < 12 {
                if let Some(l) = lines.get(rng.usize_below(lines.len())) {
                    frame_texts.push(format!("    at {}.{}(SourceFile:{})", cname, m, l));
                }
            }
            // params
            let mut params: Vec<String> = info.map(|i| i.args.clone()).unwrap_or_default();
            params.push("unknown,args".into());
            params.push("".into());
            params.push("int".into());
            params.sort();
            params.dedup();
            for p in params {
                q.push(Query::FrameParams { class: cname.clone(), method: m.clone(), params: p });
            }
        }
    }
    // the same dotted path split at another dot: ("a.b", "c") vs ("a", "b.c")
    for (cname, methods) in merged.iter().take(6) {
        if let (Some(dot), Some(m)) = (cname.rfind('.'), methods.keys().next()) {
            let (pre, suf) = (&cname[..dot], &cname[dot + 1..]);
            q.push(Query::Method(pre.to_string(), format!("{}.{}", suf, m)));
            q.push(Query::FrameLine { class: pre.to_string(), method: format!("{}.{}", suf, m), line: 1, file: None });
            q.push(Query::Method(cname.clone(), m.clone()));
        }
    }
    // queries nobody asks: control characters, dots in method names, odd parameter strings, odd files
    if let Some((cname, methods)) = merged.iter().next() {
        let m0 = methods.keys().next().cloned().unwrap_or_else(|| "a".into());
        for c in [format!("{}\0", cname), format!("{}\n{}", cname, cname), format!(" {}", cname), format!("{}.", cname)] {
            q.push(Query::Class(c.clone()));
            q.push(Query::FrameLine { class: c, method: m0.clone(), line: 1, file: None });
        }
        for m in [format!("{}.{}", m0, m0), format!("{}\0", m0), format!("{} ", m0)] {
            q.push(Query::Method(cname.clone(), m.clone()));
            q.push(Query::FrameLine { class: cname.clone(), method: m, line: 1, file: Some("".into()) });
        }
        for p in ["int,", ",", " ", "int,,int", "\u{e9}"] {
            q.push(Query::FrameParams { class: cname.clone(), method: m0.clone(), params: p.into() });
        }
        for f in ["R8$$SyntheticClass", "", "a:b", "\u{3000}"] {
            for l in [1usize, 4] {
                q.push(Query::FrameLine { class: cname.clone(), method: m0.clone(), line: l, file: Some(f.into()) });
            }
        }
    }
    // unknown class frames
    for c in ["zzz.unknown", ""] {
        q.push(Query::Method(c.into(), "a".into()));
        q.push(Query::FrameLine { class: c.into(), method: "a".into(), line: 1, file: None });
        q.push(Query::FrameParams { class: c.into(), method: "a".into(), params: "".into() });
    }

    if cfg.compound {
        // text traces built from known / unknown frames
        let exc = class_names.first().cloned().unwrap_or_else(|| "java.lang.RuntimeException".into());
        let mut t = format!("{}: Crash!\n", exc);
        for f in &frame_texts {
            t.push_str(f);
            t.push('\n');
        }
        t.push_str("    at android.view.View.performClick(View.java:7393)\n");
        if let Some(c2) = class_names.get(1) {
            t.push_str(&format!("Caused by: {}: inner\n", c2));
            if let Some(f) = frame_texts.first() {
                t.push_str(f);
                t.push('\n');
            }
            t.push_str("    ... 13 more\n");
        }
        q.push(Query::TraceText(t.clone()));
        q.push(Query::TraceTyped(t.clone()));
        q.push(Query::TraceText(t.replace('\n', "\r\n")));
        // unusual but legal shapes
        let known = class_names.get(1).or(class_names.first()).cloned().unwrap_or_else(|| "a".into());
        let f0 = frame_texts.first().cloned().unwrap_or_else(|| "    at a.a(SourceFile:1)".into());
        let cause_first = format!("Caused by: {}: inner\n{}\n    ... 3 more\n", known, f0);
        q.push(Query::TraceText(cause_first.clone()));
        q.push(Query::TraceTyped(cause_first));
        q.push(Query::TraceText(format!("{}\n", f0.replace("    at ", "\tat "))));
        q.push(Query::TraceText(format!("{}: a message with at x.y(Z.java:1) inside: and colons\n\n{}\n\n", exc, f0)));
        q.push(Query::TraceText(t.trim_end().to_string()));
        q.push(Query::TraceText(format!("{}\n\n", t)));
        q.push(Query::TraceText(format!("{}  ", t.trim_end())));
        q.push(Query::TraceTyped(format!("{}\n\n", t)));
        // a deep cause chain
        let mut deep = format!("{}: top\n{}\n", exc, f0);
        for d in 0..6 {
            deep.push_str(&format!("Caused by: {}: level {}\n{}\n    ... {} more\n", if d % 2 == 0 { &known } else { &exc }, d, f0, d));
        }
        q.push(Query::TraceText(deep.clone()));
        q.push(Query::TraceTyped(deep));
        // non-ASCII whitespace around lines (what `trim` strips and `trim_ascii` does not), a frame with
        // the synthetic-class placeholder as its file
        for ws in ["\u{3000}", "\u{a0}", "\u{b}", "\u{2028}", "\u{85}"] {
            q.push(Query::TraceText(format!("{}{}: msg{}\n{}{}{}\n", ws, exc, ws, ws, f0, ws)));
        }
        q.push(Query::TraceText(f0.replace("SourceFile", "R8$$SyntheticClass")));
        // numerals around 2^64 (and other odd numerals) as the line of a frame
        for num in ["18446744073709551615", "18446744073709551616", "18446744073709551617", "18446744073709551619", "99999999999999999999", "340282366920938463463374607431768211456", "00000000000000000001", "+1", "1e3", "\u{661}"] {
            if let Some(colon) = f0.rfind(':') {
                q.push(Query::TraceText(format!("{}:{})\n", &f0[..colon], num)));
                q.push(Query::TraceTyped(format!("{}:{})\n", &f0[..colon], num)));
            }
        }
        // parentheses, colons and dots in unusual places
        for line in [f0.replace("(", "(x)("), f0.replace("(", "()("), f0.replace(")", "))"), f0.replace(".", ".."), f0.replace(":", "::"), f0.replace("at ", "at at ")] {
            q.push(Query::TraceText(format!("{}\n", line)));
            q.push(Query::TraceTyped(format!("{}\n", line)));
        }
        // a long trace (> 8 KiB, > 128 frames) whose first line and several frame lines occur again later,
        // with frames that differ only in their file
        {
            let mut long = format!("{}: first\n", known);
            for i in 0..150 {
                long.push_str(&f0.replace("SourceFile", if i % 3 == 0 { "Other.java" } else { "SourceFile" }));
                long.push('\n');
                if i % 40 == 17 {
                    long.push_str(&format!("{}: first\n", known));
                }
                if i % 50 == 3 {
                    long.push_str(&format!("Caused by: {}: first\n", known));
                }
            }
            long.push_str(&format!("{}: first\n", known));
            q.push(Query::TraceText(long.clone()));
            q.push(Query::TraceTyped(long.clone()));
            q.push(Query::TraceText(format!("Caused by: {}: first\n{}", known, long)));
        }
        // one throwable with 140 frames cycling over all sampled frames, the same frame recurring with
        // different files
        if !frame_texts.is_empty() {
            let mut one = format!("{}: many frames\n", exc);
            for i in 0..140 {
                let f = &frame_texts[i % frame_texts.len()];
                one.push_str(&f.replace("SourceFile", ["SourceFile", "Other.java", "Third.kt"][(i / frame_texts.len()) % 3]));
                one.push('\n');
            }
            q.push(Query::TraceTyped(one.clone()));
            q.push(Query::TraceText(one));
        }
        // seeded mutations of the base trace (delete / duplicate / swap lines, splice odd characters)
        let base_lines: Vec<&str> = t.lines().collect();
        for _ in 0..6 {
            let mut ls: Vec<String> = base_lines.iter().map(|l| l.to_string()).collect();
            for _ in 0..rng.range(1, 3) {
                if ls.is_empty() {
                    break;
                }
                let i = rng.usize_below(ls.len());
                match rng.below(6) {
                    0 => {
                        ls.remove(i);
                    }
                    1 => {
                        let l = ls[i].clone();
                        ls.insert(i, l);
                    }
                    2 => {
                        let j = rng.usize_below(ls.len());
                        ls.swap(i, j);
                    }
                    3 => {
                        let ins = *rng.pick(&["(", ")", ":", ".", " ", "\t", "\u{e9}", "\u{3000}", "at ", "Caused by: ", "$", "0"]);
                        let pos = ls[i].char_indices().map(|(p, _)| p).nth(rng.usize_below(ls[i].chars().count().max(1))).unwrap_or(0);
                        ls[i].insert_str(pos, ins);
                    }
                    4 => {
                        let n = ls[i].chars().count();
                        if n > 1 {
                            let cut = ls[i].char_indices().map(|(p, _)| p).nth(rng.usize_below(n)).unwrap_or(0);
                            ls[i].truncate(cut);
                        }
                    }
                    _ => ls[i] = ls[i].replace("SourceFile", *rng.pick(&["", "R8$$SyntheticClass", "a:b", "\u{e9}.kt"])),
                }
            }
            q.push(Query::TraceText(ls.join("\n")));
        }
        q.push(Query::TraceText("not a trace at all\n\n  \u{e9}\u{e9}: x".into()));
        q.push(Query::TraceTyped(frame_texts.join("\n")));
        // signatures
        let c0 = class_names.first().cloned().unwrap_or_else(|| "a".into()).replace('.', "/");
        for s in [
            format!("(L{};I)V", c0),
            "()V".to_string(),
            format!("([[L{};)L{};", c0, c0),
            "(Lunknown/K;J)[I".to_string(),
            "(L".to_string(),
            "".to_string(),
            format!("(L{})V", c0),
            "(\u{e9})\u{e9}".to_string(),
            // unterminated object types ending in a multi-byte character, odd tails
            format!("(L{}/\u{df})V", c0),
            "(L\u{e9})V".to_string(),
            "(L\u{e9}".to_string(),
            format!("(L{};)L\u{e9}", c0),
            format!("(L{};[)V", c0),
            format!("(L{};)[", c0),
            "(\u{1d49c})V".to_string(),
            // array dimension thresholds (the JVM allows 255)
            format!("({}I)V", "[".repeat(255)),
            format!("({}I){}L{};", "[".repeat(256), "[".repeat(300), c0),
            format!("({}L{};)V", "[".repeat(2_000), c0),
        ] {
            q.push(Query::Signature(s));
        }
    }

    if q.len() > cfg.cap {
        rng.shuffle(&mut q);
        q.truncate(cfg.cap);
    }
    q
}
