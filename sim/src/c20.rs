//! C20 — mapper and cache are shareable across threads and answer as if queried alone.
//! Seam: the caller threads. D1 (this file, native): real OS threads under the seeded baton
//! scheduler; scheduling points between library calls and between the steps of frame iterators.
//! D2: the same scenario without the baton, run under Miri (its seed decides preemption inside
//! library calls; its race detector flags unsynchronised sharing). S: the autotraits crate.

use crate::api::{self, cur, AlignedBuf};
use crate::common::*;
use crate::gen;
use crate::rng::{digest_bytes, run_seed, Digest, Rng};
use crate::sched::{Baton, Participant, Policy};
use crate::universe::{universe, Query, UniCfg};
use serde_json::{json, Value};

#[derive(Clone, Copy, Debug, PartialEq, Eq, Hash)]
pub enum Target {
    Cache,
    Mapper,
    MapperParams,
    Mapping,
}

impl Target {
    pub fn name(self) -> &'static str {
        match self {
            Target::Cache => "cache",
            Target::Mapper => "mapper",
            Target::MapperParams => "mapper_with_params",
            Target::Mapping => "mapping",
        }
    }
    pub fn from_name(s: &str) -> Option<Target> {
        [Target::Cache, Target::Mapper, Target::MapperParams, Target::Mapping].into_iter().find(|t| t.name() == s)
    }
}

#[derive(Clone, Debug)]
pub struct Job {
    pub target: Target,
    pub q: Query,
    /// which handle set (mapping) the job addresses: scenarios may share two independent sets
    pub set: usize,
    /// address the `.clone()` of the handle instead of the handle itself
    pub via_clone: bool,
}

impl Job {
    fn to_json(&self) -> Value {
        json!({"target": self.target.name(), "q": self.q.to_json(), "set": self.set, "via_clone": self.via_clone})
    }
    fn from_json(v: &Value) -> Option<Job> {
        Some(Job { target: Target::from_name(v.get("target")?.as_str()?)?, q: Query::from_json(v.get("q")?)?, set: v.get("set").and_then(|x| x.as_u64()).unwrap_or(0) as usize, via_clone: v.get("via_clone").and_then(|x| x.as_bool()).unwrap_or(false) })
    }
    fn describe(&self) -> String {
        format!("set{}.{}{}.{}", self.set, self.target.name(), if self.via_clone { "(clone)" } else { "" }, self.q.describe())
    }
}

/// One set of handles over one mapping.
/// (Separate lifetime parameters for mapping, cache and mapper: the cache's `remap_frame` needs the
/// cache borrowed for its whole data lifetime, which relies on `ProguardCache` being covariant; the
/// harness must keep compiling if some OTHER handle type becomes invariant in its lifetime.)
pub struct HandleSet<'m, 'c, 'p> {
    pub mapping: cur::ProguardMapping<'m>,
    pub cache: cur::ProguardCache<'c>,
    pub mapper: cur::ProguardMapper<'p>,
    pub mapper_p: cur::ProguardMapper<'p>,
    /// `.clone()`s of the four handles above (state shared between a handle and its clones is shared state)
    pub clones: Option<Box<HandleSet<'m, 'c, 'p>>>,
}

/// The bytes the handles borrow from: mapping files and their (aligned) cache files.
pub struct Inputs {
    pub mappings: Vec<Vec<u8>>,
    pub caches: Vec<AlignedBuf>,
}

impl Inputs {
    pub fn new(mappings: &[Vec<u8>]) -> Option<Inputs> {
        let mut caches = Vec::new();
        for m in mappings {
            caches.push(AlignedBuf::new(&guarded(|| cur::write_cache(m)).ok()?));
        }
        Some(Inputs { mappings: mappings.to_vec(), caches })
    }
}

/// The shared handles (one or two independent sets). Built once per run; every worker thread
/// gets `&Shared`.
pub struct Shared<'m, 'c, 'p> {
    pub sets: Vec<HandleSet<'m, 'c, 'p>>,
}

impl<'a> Shared<'a, 'a, 'a> {
    pub fn build(inp: &'a Inputs) -> Option<Shared<'a, 'a, 'a>> {
        Self::build_with(inp, true)
    }

    /// `with_clones = false` skips the cloned handles (deep copies are expensive under Miri).
    pub fn build_with(inp: &'a Inputs, with_clones: bool) -> Option<Shared<'a, 'a, 'a>> {
        let mut sets = Vec::new();
        for (m, c) in inp.mappings.iter().zip(inp.caches.iter()) {
            let m = cur::ProguardMapping::new(m);
            let cache = cur::ProguardCache::parse(c.as_slice()).ok()?;
            let mapper = cur::ProguardMapper::new(m.clone());
            let mapper_p = cur::ProguardMapper::new_with_param_mapping(m.clone(), true);
            let clones = if with_clones {
                Some(Box::new(HandleSet { cache: cache.clone(), mapper: mapper.clone(), mapper_p: mapper_p.clone(), mapping: m.clone(), clones: None }))
            } else {
                None
            };
            sets.push(HandleSet { cache, mapper, mapper_p, mapping: m, clones });
        }
        Some(Shared { sets })
    }
}

/// The harness must compile whatever the auto traits of the library types are (that clause is
/// decided by the `autotraits` crate alone), so sharing is forced here.
pub struct ForceShare<T>(T);
unsafe impl<T> Sync for ForceShare<T> {}
unsafe impl<T> Send for ForceShare<T> {}
impl<T> ForceShare<T> {
    pub fn get(&self) -> &T {
        &self.0
    }
}

pub fn answer_job<'b, 'm, 'c: 'b, 'p: 'b>(sh: &'b Shared<'m, 'c, 'p>, job: &'b Job, step: &mut dyn FnMut() -> bool) -> String {
    let sh = &sh.sets[job.set.min(sh.sets.len() - 1)];
    let sh = match (&sh.clones, job.via_clone) {
        (Some(c), true) => &**c,
        _ => sh,
    };
    match job.target {
        Target::Cache => cur::answer_cache_stepped(&sh.cache, &job.q, &mut |_| {}, step),
        Target::Mapper => cur::answer_mapper_stepped(&sh.mapper, &job.q, step),
        Target::MapperParams => cur::answer_mapper_stepped(&sh.mapper_p, &job.q, step),
        Target::Mapping => api::answer_mapping(&sh.mapping, &job.q),
    }
}

fn guarded_answer<'b, 'm, 'c: 'b, 'p: 'b>(sh: &'b Shared<'m, 'c, 'p>, job: &'b Job, step: &mut dyn FnMut() -> bool) -> String {
    match guarded(|| answer_job(sh, job, step)) {
        Ok(a) => a,
        Err(p) => format!("PANIC: {}", panic_class(&p)),
    }
}

/// The reference: the query issued alone — on a fresh thread (pristine thread-locals) against
/// freshly built handles.
pub fn answer_alone(inp: &Inputs, job: &Job) -> String {
    std::thread::scope(|s| {
        std::thread::Builder::new()
            .stack_size(256 * 1024)
            .spawn_scoped(s, || match Shared::build(inp) {
                Some(sh) => guarded_answer(&sh, job, &mut || false),
                None => "UNBUILDABLE".into(),
            })
            .expect("spawn reference thread")
            .join()
            .unwrap_or_else(|_| "PANIC: reference thread died".into())
    })
}

#[derive(Clone, Debug)]
pub struct Scenario {
    pub mapping: Vec<u8>,
    /// optional second, independent mapping with its own handle set (jobs with set == 1)
    pub mapping2: Option<Vec<u8>>,
    pub batches: Vec<Vec<Job>>,
    pub policy: Policy,
    pub baton_seed: u64,
    /// with probability nested_pct/100 a thread runs its next job *inside* an iterator step
    pub nested_pct: u64,
    /// with probability fork_pct/100 a job's frame iterator is cloned at one of its first steps and the clone drained
    pub fork_pct: u64,
}

impl Scenario {
    pub fn to_json(&self) -> Value {
        json!({
            "mapping": bytes_to_json(&self.mapping),
            "mapping2": self.mapping2.as_ref().map(|m| bytes_to_json(m)),
            "batches": self.batches.iter().map(|b| b.iter().map(|j| j.to_json()).collect::<Vec<_>>()).collect::<Vec<_>>(),
            "policy": match self.policy { Policy::Uniform => json!("uniform"), Policy::RunToCompletion => json!("run_to_completion"), Policy::Pct{depth} => json!({"pct": depth}) },
            "baton_seed": self.baton_seed.to_string(),
            "nested_pct": self.nested_pct,
            "fork_pct": self.fork_pct,
        })
    }
    pub fn from_json(v: &Value) -> Option<Scenario> {
        let policy = match &v["policy"] {
            Value::String(s) if s == "uniform" => Policy::Uniform,
            Value::String(s) if s == "run_to_completion" => Policy::RunToCompletion,
            o => Policy::Pct { depth: o.get("pct")?.as_u64()? as u32 },
        };
        Some(Scenario {
            mapping: bytes_from_json(&v["mapping"])?,
            mapping2: bytes_from_json(&v["mapping2"]),
            batches: v["batches"].as_array()?.iter().map(|b| b.as_array().map(|a| a.iter().filter_map(Job::from_json).collect()).unwrap_or_default()).collect(),
            policy,
            baton_seed: v["baton_seed"].as_str()?.parse().ok()?,
            nested_pct: v["nested_pct"].as_u64().unwrap_or(0),
            fork_pct: v["fork_pct"].as_u64().unwrap_or(0),
        })
    }
}

/// Same byte length, but every member line's leading obfuscated start line becomes 0, i.e. the
/// variant has no line info at all (changes has_line_info / frame answers, keeps summary counts).
pub fn zero_lines_variant(m: &[u8]) -> Option<Vec<u8>> {
    let mut out = m.to_vec();
    let mut changed = false;
    let mut i = 0;
    while i < out.len() {
        let line_start = i == 0 || out[i - 1] == b'\n' || out[i - 1] == b'\r';
        if line_start && out[i..].starts_with(b"    ") {
            let mut j = i + 4;
            while j < out.len() && out[j].is_ascii_digit() {
                if out[j] != b'0' {
                    out[j] = b'0';
                    changed = true;
                }
                j += 1;
            }
            i = j.max(i + 1);
        } else {
            i += 1;
        }
    }
    changed.then_some(out)
}

/// A second mapping for the same scenario: an equal-length sibling of the first (renamed
/// originals, or all line info stripped — what state keyed by length, by a truncated content hash or
/// by buffer address would confuse), or an independent generated one (overlapping obfuscated names).
fn second_mapping(rng: &mut Rng, first: &[u8]) -> Vec<u8> {
    match rng.below(3) {
        0 => {
            if let Some(v) = crate::c14::same_length_variant(first) {
                return v;
            }
        }
        1 => {
            if let Some(v) = zero_lines_variant(first) {
                return v;
            }
        }
        _ => {}
    }
    gen::gen_case(rng, 6, 8).1
}

pub fn build_scenario(rng: &mut Rng, mapping: Vec<u8>, max_threads: u64, jobs_per_thread: u64) -> Scenario {
    let mapping2 = if rng.chance(1, 3) { Some(second_mapping(rng, &mapping)) } else { None };
    let unis: Vec<Vec<Query>> = std::iter::once(&mapping)
        .chain(mapping2.iter())
        .map(|m| universe(m, rng, &UniCfg { lines_full: false, cap: 600, compound: true }))
        .collect();
    // one scenario in 40 is long: few threads, hundreds of calls each (state that only shows after many calls)
    let long = rng.chance(1, 40);
    let (max_threads, jobs_per_thread) = if long { (4, 600) } else { (max_threads, jobs_per_thread) };
    let n_threads = rng.range(2, max_threads.max(2)) as usize;
    // line-boundary offsets for `section(0..k)` jobs
    let boundaries: Vec<Vec<usize>> = std::iter::once(&mapping)
        .chain(mapping2.iter())
        .map(|m| {
            let mut v: Vec<usize> = m.iter().enumerate().filter(|(_, b)| **b == b'\n').map(|(i, _)| i + 1).collect();
            v.push(m.len());
            v.push(0);
            // out of range: `section` documents a panic; it must stay confined to that one call
            v.push(m.len() + 5);
            v
        })
        .collect();
    // a small "hot set" per handle set so that different threads hit the same and neighbouring entries
    let hots: Vec<Vec<Query>> = unis
        .iter()
        .map(|uni| (0..rng.range(2, 12)).filter_map(|_| if uni.is_empty() { None } else { Some(rng.pick(uni).clone()) }).collect())
        .collect();
    let mut batches = Vec::new();
    for _ in 0..n_threads {
        let n = if long { rng.range(300, jobs_per_thread) } else { rng.range(1, jobs_per_thread.max(1)) };
        let mut b = Vec::new();
        for _ in 0..n {
            let set = if unis.len() > 1 && rng.chance(1, 2) { 1 } else { 0 };
            let (uni, hot) = (&unis[set], &hots[set]);
            let q = match rng.below(20) {
                0 => Query::MapUuid,
                1 => Query::MapSummary,
                2 => match rng.below(3) {
                    0 => Query::MapHasLineInfo,
                    1 => Query::MapIsValid,
                    _ => Query::MapSection(*rng.pick(&boundaries[set])),
                },
                3..=10 if !hot.is_empty() => rng.pick(hot).clone(),
                _ if !uni.is_empty() => rng.pick(uni).clone(),
                _ => Query::Class("a".into()),
            };
            let target = match q {
                Query::MapUuid | Query::MapSummary | Query::MapHasLineInfo | Query::MapIsValid | Query::MapSection(_) => Target::Mapping,
                _ => match rng.below(5) {
                    0 | 1 => Target::Cache,
                    2 => Target::Mapper,
                    3 => Target::MapperParams,
                    _ => Target::Cache,
                },
            };
            // a text trace is often followed by a sibling that differs only in trailing whitespace / blank lines
            let sibling = match &q {
                Query::TraceText(t) if rng.chance(1, 2) => Some(Query::TraceText(match rng.below(4) {
                    0 => format!("{}\n\n", t),
                    1 => format!("{}  ", t.trim_end()),
                    2 => t.trim_end().to_string(),
                    _ => format!("{}\n", t.trim_end()),
                })),
                _ => None,
            };
            let via_clone = rng.chance(1, 5);
            // ("a.b", "c") is sometimes preceded by the same dotted path split elsewhere: ("a", "b.c")
            if let Query::Method(c, m) = &q {
                if let Some(dot) = c.rfind('.') {
                    if rng.chance(1, 3) {
                        b.push(Job { target, q: Query::Method(c[..dot].to_string(), format!("{}.{}", &c[dot + 1..], m)), set, via_clone });
                    }
                }
            }
            b.push(Job { target, q, set, via_clone });
            if let Some(sq) = sibling {
                b.push(Job { target, q: sq, set, via_clone });
            }
        }
        batches.push(b);
    }
    let policy = match rng.below(10) {
        0 => Policy::RunToCompletion,
        1..=5 => Policy::Uniform,
        _ => Policy::Pct { depth: rng.range(1, 4) as u32 },
    };
    Scenario { mapping, mapping2, batches, policy, baton_seed: rng.next_u64(), nested_pct: *rng.pick(&[0u64, 0, 15, 40]), fork_pct: *rng.pick(&[0u64, 10, 30]) }
}

pub struct ScenarioResult {
    /// liveness escapes of the baton (a holder blocked outside the simulator)
    pub stalls: u64,
    pub violation: Option<(String, String)>,
    pub steps: u64,
    pub switches: u64,
    pub schedule_digest: u64,
    pub log: u64,
    pub jobs: u64,
}

/// Execute one scenario: reference answers, concurrent phase under the baton, post-phase.
pub fn run_scenario(sc: &Scenario, use_baton: bool) -> ScenarioResult {
    let all_mappings: Vec<Vec<u8>> = std::iter::once(sc.mapping.clone()).chain(sc.mapping2.iter().cloned()).collect();
    let Some(inputs) = Inputs::new(&all_mappings) else {
        return ScenarioResult { stalls: 0, violation: None, steps: 0, switches: 0, schedule_digest: 0, log: 0, jobs: 0 };
    };
    let inputs = &inputs;
    // reference: each job alone
    // Two reference passes over the distinct jobs, each on a fresh thread with freshly built
    // handles, one in forward and one in reverse order. If they disagree, an answer depends on the
    // queries issued before it (thread-local or instance state): that already contradicts
    // "returns exactly what it returns when issued alone". If they agree they are the reference.
    let mut distinct: Vec<&Job> = Vec::new();
    let mut index: std::collections::HashMap<(usize, Target, &Query), usize> = std::collections::HashMap::new();
    for b in &sc.batches {
        for j in b {
            index.entry((j.set, j.target, &j.q)).or_insert_with(|| {
                distinct.push(j);
                distinct.len() - 1
            });
        }
    }
    let pass = |order: Vec<usize>| -> Vec<(usize, String)> {
        let distinct = &distinct;
        std::thread::scope(|s| {
            std::thread::Builder::new()
                .stack_size(512 * 1024)
                .spawn_scoped(s, move || match Shared::build(inputs) {
                    Some(sh) => order.into_iter().map(|k| (k, guarded_answer(&sh, distinct[k], &mut || false))).collect(),
                    None => Vec::new(),
                })
                .expect("spawn reference thread")
                .join()
                .unwrap_or_default()
        })
    };
    let fwd = pass((0..distinct.len()).collect());
    let rev = pass((0..distinct.len()).rev().collect());
    let mut reference: Vec<String> = vec![String::new(); distinct.len()];
    for (k, a) in fwd {
        reference[k] = a;
    }
    for (k, a) in rev {
        if reference[k] != a {
            // pin down the truly-alone answer for the message
            let alone = answer_alone(inputs, distinct[k]);
            return ScenarioResult {
                violation: Some((
                    format!("answer-depends-on-query-history target={}", distinct[k].target.name()),
                    format!(
                        "single thread, fresh instance: {} answers {:?} in one query order and {:?} in the reverse order (alone: {:?})",
                        distinct[k].describe(),
                        reference[k],
                        a,
                        alone
                    ),
                )),
                stalls: 0,
                steps: 0,
                switches: 0,
                schedule_digest: 0,
                log: 0,
                jobs: distinct.len() as u64,
            };
        }
    }
    let expected: Vec<Vec<String>> = sc.batches.iter().map(|b| b.iter().map(|j| reference[index[&(j.set, j.target, &j.q)]].clone()).collect()).collect();

    let Some(shared) = Shared::build(inputs) else {
        return ScenarioResult { stalls: 0, violation: None, steps: 0, switches: 0, schedule_digest: 0, log: 0, jobs: 0 };
    };
    let shared = ForceShare(shared);
    let n = sc.batches.len();
    let total_jobs: u64 = sc.batches.iter().map(|b| b.len() as u64).sum();
    let baton = Baton::new(n, sc.baton_seed, sc.policy, total_jobs * 3);
    let batches = &sc.batches;
    let nested_pct = sc.nested_pct;
    let fork_pct = sc.fork_pct;
    let baton_seed = sc.baton_seed;
    let answers: Vec<Vec<String>> = std::thread::scope(|s| {
        let handles: Vec<_> = (0..n)
            .map(|me| {
                let shared = &shared;
                let baton = &baton;
                std::thread::Builder::new().stack_size(512 * 1024).spawn_scoped(s, move || {
                    let sh = shared.get();
                    let mut out: Vec<String> = Vec::new();
                    let mut local = Rng::new(baton_seed ^ (me as u64).wrapping_mul(0x9E3779B97F4A7C15));
                    let _p = if use_baton {
                        baton.start(me);
                        Some(Participant { baton, me })
                    } else {
                        None
                    };
                    let batch = &batches[me];
                    let mut nested_answers: Vec<(usize, String)> = Vec::new();
                    let mut i = 0;
                    while i < batch.len() {
                        let job = &batch[i];
                        // the job after this one may run nested inside an iterator step of this one
                        let nest = i + 1 < batch.len() && local.chance(nested_pct, 100);
                        let mut nested_done = false;
                        // fork: at one step of this job's frame iterator a clone of the iterator is drained
                        let fork_at: u64 = if local.chance(fork_pct, 100) { local.below(3) } else { u64::MAX };
                        let mut step_no = 0u64;
                        let a = guarded_answer(sh, job, &mut || {
                            if use_baton {
                                baton.yield_point(me);
                            } else {
                                std::thread::yield_now();
                            }
                            if nest && !nested_done {
                                nested_done = true;
                                let nj = &batch[i + 1];
                                nested_answers.push((i + 1, guarded_answer(sh, nj, &mut || false)));
                            }
                            step_no += 1;
                            step_no - 1 == fork_at
                        });
                        out.push(a);
                        if nest && nested_done {
                            let (_, na) = nested_answers.pop().unwrap();
                            out.push(na);
                            i += 2;
                        } else {
                            i += 1;
                        }
                        if use_baton {
                            baton.yield_point(me);
                        }
                    }
                    out
                })
                .expect("spawn worker thread")
            })
            .collect();
        handles.into_iter().map(|h| h.join().unwrap_or_default()).collect()
    });
    let (steps, switches, schedule_digest) = baton.summary();
    let stalls = baton.stalls();
    let mut log = Digest::default();
    log.u64(schedule_digest);
    let mut violation = None;
    'outer: for t in 0..n {
        for (i, job) in sc.batches[t].iter().enumerate() {
            let got = answers[t].get(i).cloned().unwrap_or_else(|| "MISSING (thread died)".into());
            log.str(&got);
            if got != expected[t][i] {
                violation = Some((
                    format!("concurrent-answer-differs target={}", job.target.name()),
                    format!("thread {} job {} {}: alone -> {:?}, under the concurrent schedule -> {:?}", t, i, job.describe(), expected[t][i], got),
                ));
                break 'outer;
            }
        }
    }
    // post-phase: the shared instance queried again with nobody else running, from one fresh
    // thread (state leakage); distinct jobs only
    if violation.is_none() {
        let shared = &shared;
        let mut seen: std::collections::HashSet<(usize, Target, &Query)> = std::collections::HashSet::new();
        let todo: Vec<(usize, usize)> = (0..n)
            .flat_map(|t| (0..sc.batches[t].len()).map(move |i| (t, i)))
            .filter(|(t, i)| seen.insert((sc.batches[*t][*i].set, sc.batches[*t][*i].target, &sc.batches[*t][*i].q)))
            .collect();
        let batches = &sc.batches;
        let expected = &expected;
        violation = std::thread::scope(|s| {
            s.spawn(move || {
                let sh = shared.get();
                for (t, i) in todo {
                    let job = &batches[t][i];
                    let got = guarded_answer(sh, job, &mut || false);
                    if got != expected[t][i] {
                        return Some((
                            format!("state-leak-after-concurrent-phase target={}", job.target.name()),
                            format!("after the concurrent phase {} on the shared instance -> {:?}, alone on a fresh instance -> {:?}", job.describe(), got, expected[t][i]),
                        ));
                    }
                }
                None
            })
            .join()
            .unwrap_or(None)
        });
    }
    if violation.is_none() {
        violation = std::thread::scope(|s| s.spawn(|| churn_phase(inputs)).join().unwrap_or(None));
    }
    // long scenarios also hammer single queries on the long-lived shared handles
    if violation.is_none() && sc.batches.iter().any(|b| b.len() >= 300) {
        let sh = shared.get();
        let jobs: Vec<&Job> = distinct.iter().copied().collect();
        violation = std::thread::scope(|s| s.spawn(|| repeat_phase(sh, &jobs, &reference)).join().unwrap_or(None));
    }
    // one scenario in 6 / in 12 (by its baton seed; thread creation is the cost): pool workers over handle generations, iterator hand-off
    if violation.is_none() && sc.baton_seed % 4 == 0 {
        violation = guarded(|| generation_phase(inputs)).unwrap_or(None);
    }
    if violation.is_none() && sc.baton_seed % 12 == 1 {
        violation = guarded(|| handoff_phase(inputs)).unwrap_or(None);
    }
    ScenarioResult { stalls, violation, steps, switches, schedule_digest, log: log.finish(), jobs: total_jobs }
}

// ---------------------------------------------------------------------------------------------

/// Handle churn over a reused buffer: the mappings of the scenario are copied, one after the other,
/// into ONE buffer (and their caches into one aligned buffer); fresh handles are built over it each
/// time and questioned. Every answer must equal the alone reference for that content — whatever
/// the buffer held before.
fn churn_phase(inputs: &Inputs) -> Option<(String, String)> {
    if inputs.mappings.len() < 2 {
        return None;
    }
    // reference: fresh handles over the original, separately allocated bytes
    let probes = |sh: &HandleSet<'_, '_, '_>, class: &str| -> Vec<String> {
        let mut v: Vec<String> = [Query::MapHasLineInfo, Query::MapIsValid, Query::MapSummary, Query::MapUuid].iter().map(|q| api::answer_mapping(&sh.mapping, q)).collect();
        let q = Query::Class(class.to_string());
        v.push(cur::answer_cache(&sh.cache, &q));
        v.push(cur::answer_mapper(&sh.mapper_p, &q));
        let f = Query::FrameLine { class: class.to_string(), method: "a".into(), line: 1, file: None };
        v.push(cur::answer_cache(&sh.cache, &f));
        v.push(cur::answer_mapper(&sh.mapper, &f));
        v
    };
    let names = ["has_line_info", "is_valid", "summary", "uuid", "cache.remap_class", "mapper.remap_class", "cache.remap_frame", "mapper.remap_frame"];
    let class0: Vec<String> = inputs.mappings.iter().map(|m| crate::universe::scan(m).first().map(|c| c.obf.clone()).unwrap_or_else(|| "a".into())).collect();
    let reference: Vec<Vec<String>> = {
        let sh = Shared::build(inputs)?;
        (0..inputs.mappings.len()).map(|k| probes(&sh.sets[k], &class0[k])).collect()
    };
    let max_m = inputs.mappings.iter().map(|m| m.len()).max().unwrap_or(0);
    let max_c = inputs.caches.iter().map(|c| c.len()).max().unwrap_or(0);
    let mut mbuf: Vec<u8> = Vec::with_capacity(max_m + 1);
    let mut cbuf = AlignedBuf::new(&vec![0u8; max_c]);
    for k in [0usize, 1, 0, 1] {
        mbuf.clear();
        mbuf.extend_from_slice(&inputs.mappings[k]);
        let cbytes = inputs.caches[k].as_slice();
        cbuf.as_mut_slice()[..cbytes.len()].copy_from_slice(cbytes);
        let cview = &cbuf.as_slice()[..cbytes.len()];
        let got = guarded(|| {
            let m = cur::ProguardMapping::new(&mbuf);
            let set = HandleSet {
                cache: cur::ProguardCache::parse(cview).ok()?,
                mapper: cur::ProguardMapper::new(m.clone()),
                mapper_p: cur::ProguardMapper::new_with_param_mapping(m.clone(), true),
                mapping: m,
                clones: None,
            };
            Some(probes(&set, &class0[k]))
        });
        match got {
            Ok(Some(g)) => {
                for (i, (a, b)) in g.iter().zip(reference[k].iter()).enumerate() {
                    if a != b {
                        return Some((
                            format!("answer-depends-on-buffer-history probe={}", names[i]),
                            format!(
                                "handles re-created over a reused buffer (now holding mapping #{} of the scenario): {} -> {:?}, on separately allocated bytes -> {:?}",
                                k, names[i], a, b
                            ),
                        ));
                    }
                }
            }
            Ok(None) => {}
            Err(p) => return Some((format!("panic-in-churn-phase {}", panic_class(&p)), format!("panic while re-creating handles over a reused buffer: {}", p))),
        }
    }
    None
}

/// Handle generations served by long-lived pool workers. The workers outlive every handle; each
/// generation's handles are created AND dropped by the main thread while the workers are parked, and
/// consecutive generations are parsed from different content with the same class names at shifted
/// indices. State a worker keeps about "the handle" (thread-locals keyed by a recycled id, by an
/// address that is reused, ...) then meets a different handle.
fn generation_phase(inputs: &Inputs) -> Option<(String, String)> {
    use std::sync::{Arc, Barrier, Mutex};
    let base = &inputs.mappings[0];
    // same content plus one class that sorts before everything: every index shifts by one
    let mut shifted: Vec<u8> = b"x.First -> 0first:\n    1:1:void f():1:1 -> a\n".to_vec();
    shifted.extend_from_slice(base);
    let gens: Vec<Inputs> = [base.clone(), shifted, base.clone()].iter().filter_map(|m| Inputs::new(std::slice::from_ref(m))).collect();
    if gens.len() != 3 {
        return None;
    }
    let probes: Vec<Job> = {
        let classes = crate::universe::scan(base);
        let mut v = Vec::new();
        for c in classes.iter().take(4) {
            v.push(Job { via_clone: false, set: 0, target: Target::Cache, q: Query::Class(c.obf.clone()) });
            v.push(Job { via_clone: false, set: 0, target: Target::Mapper, q: Query::Class(c.obf.clone()) });
            if let Some((m, mi)) = c.methods.iter().next() {
                let line = mi.ranges.first().map(|r| r.0).unwrap_or(1);
                v.push(Job { via_clone: false, set: 0, target: Target::Cache, q: Query::FrameLine { class: c.obf.clone(), method: m.clone(), line, file: None } });
                v.push(Job { via_clone: false, set: 0, target: Target::MapperParams, q: Query::Method(c.obf.clone(), m.clone()) });
            }
        }
        v.push(Job { via_clone: false, set: 0, target: Target::Mapping, q: Query::MapSummary });
        v
    };
    if probes.len() < 2 {
        return None;
    }
    let reference: Vec<Vec<String>> = gens
        .iter()
        .map(|g| match Shared::build(g) {
            Some(sh) => probes.iter().map(|j| guarded_answer(&sh, j, &mut || false)).collect(),
            None => Vec::new(),
        })
        .collect();
    let n_workers = 2;
    let barrier = Barrier::new(n_workers + 1);
    let slot: Mutex<Option<Arc<ForceShare<Shared<'_, '_, '_>>>>> = Mutex::new(None);
    let probes = &probes;
    let answers: Vec<Vec<Vec<String>>> = std::thread::scope(|s| {
        let hs: Vec<_> = (0..n_workers)
            .map(|w| {
                let barrier = &barrier;
                let slot = &slot;
                let n_gens = gens.len();
                s.spawn(move || {
                    let mut out: Vec<Vec<String>> = Vec::new();
                    for _ in 0..n_gens {
                        barrier.wait(); // a generation has been published
                        let h = slot.lock().unwrap().clone();
                        let a: Vec<String> = match &h {
                            Some(h) => {
                                let sh = h.get();
                                // worker 1 asks in reverse order; every worker begins and ends each generation
                                // with the same cache lookup ("its" class), so that the first lookup in the next
                                // generation repeats the name of the last lookup in the previous one
                                let mine = (0..probes.len()).filter(|i| matches!(probes[*i].q, Query::Class(_)) && probes[*i].target == Target::Cache).nth(w).unwrap_or(0);
                                let mut idx: Vec<usize> = if w == 0 { (0..probes.len()).collect() } else { (0..probes.len()).rev().collect() };
                                idx.insert(0, mine);
                                idx.push(mine);
                                let mut a = vec![String::new(); probes.len()];
                                let mut bad: Option<String> = None;
                                for i in idx {
                                    let got = guarded_answer(sh, &probes[i], &mut || false);
                                    if !a[i].is_empty() && a[i] != got {
                                        if bad.is_none() {
                                            bad = Some(format!("INCONSISTENT within one generation: first {:?}, later {:?}", a[i], got));
                                        }
                                        continue; // keep the first answer
                                    }
                                    a[i] = got;
                                }
                                if let Some(b) = bad {
                                    a[mine] = b;
                                }
                                a
                            }
                            None => Vec::new(),
                        };
                        drop(h); // the worker lets go before the main thread drops the generation
                        out.push(a);
                        barrier.wait(); // done with this generation
                    }
                    out
                })
            })
            .collect();
        for g in &gens {
            let built = Shared::build(g).map(|sh| Arc::new(ForceShare(sh)));
            *slot.lock().unwrap() = built;
            barrier.wait();
            barrier.wait();
            let last = slot.lock().unwrap().take();
            drop(last); // dropped here, on a thread that never queried it
        }
        hs.into_iter().map(|h| h.join().unwrap_or_default()).collect()
    });
    for (w, per_gen) in answers.iter().enumerate() {
        for (g, a) in per_gen.iter().enumerate() {
            for (i, got) in a.iter().enumerate() {
                if reference[g].get(i) != Some(got) {
                    return Some((
                        format!("answer-depends-on-earlier-handle-generation target={}", probes[i].target.name()),
                        format!(
                            "pool worker {} on handle generation {} (earlier generations were dropped by another thread): {} -> {:?}, alone on fresh handles -> {:?}",
                            w,
                            g,
                            probes[i].describe(),
                            got,
                            reference[g].get(i)
                        ),
                    ));
                }
            }
        }
    }
    None
}

/// A half-consumed frame iterator is moved to another thread and finished there (the iterator types
/// are `Send`); the receiving thread has issued 0..2 frame queries of its own before.
fn handoff_phase(inputs: &Inputs) -> Option<(String, String)> {
    struct ForceSend<T>(T);
    unsafe impl<T> Send for ForceSend<T> {}
    let sh = Shared::build(inputs)?;
    let set = &sh.sets[0];
    let classes = crate::universe::scan(&inputs.mappings[0]);
    let mut frames: Vec<(String, String, usize)> = Vec::new();
    for c in classes.iter().take(6) {
        for (m, mi) in c.methods.iter().take(3) {
            for r in mi.ranges.iter().take(2) {
                frames.push((c.obf.clone(), m.clone(), r.0));
            }
        }
    }
    frames.truncate(4);
    let render = |f: &cur::StackFrame<'_>| format!("{}|{}|{:?}|{}", f.class(), f.method(), f.file(), f.line());
    let shared = ForceShare((set, &frames));
    for (ci, (c, m, l)) in frames.iter().enumerate() {
        for use_cache in [true, false] {
            let frame = cur::StackFrame::new(c, m, *l);
            let alone: Vec<String> =
                if use_cache { set.cache.remap_frame(&frame).map(|f| render(&f)).collect() } else { set.mapper.remap_frame(&frame).map(|f| render(&f)).collect() };
            if alone.len() < 2 {
                continue;
            }
            for warm in 0..3usize {
                let shared = &shared;
                let frame = &frame;
                let got: Vec<String> = std::thread::scope(|s| {
                    if use_cache {
                        let (first, it) = s
                            .spawn(move || {
                                let (set, _) = shared.get();
                                let mut it = set.cache.remap_frame(frame);
                                let first = it.next().map(|f| render(&f));
                                (first, ForceSend(it))
                            })
                            .join()
                            .ok()?;
                        let rest: Vec<String> = s
                            .spawn(move || {
                                let (set, frames) = shared.get();
                                for (c2, m2, l2) in frames.iter().cycle().skip(ci + 1).take(warm) {
                                    let _ = set.cache.remap_frame(&cur::StackFrame::new(c2, m2, *l2)).count();
                                }
                                let it = it;
                                it.0.map(|f| render(&f)).collect()
                            })
                            .join()
                            .ok()?;
                        Some(first.into_iter().chain(rest).collect())
                    } else {
                        let (first, it) = s
                            .spawn(move || {
                                let (set, _) = shared.get();
                                let mut it = set.mapper.remap_frame(frame);
                                let first = it.next().map(|f| render(&f));
                                (first, ForceSend(it))
                            })
                            .join()
                            .ok()?;
                        let rest: Vec<String> = s
                            .spawn(move || {
                                let (set, frames) = shared.get();
                                for (c2, m2, l2) in frames.iter().cycle().skip(ci + 1).take(warm) {
                                    let _ = set.mapper.remap_frame(&cur::StackFrame::new(c2, m2, *l2)).count();
                                }
                                let it = it;
                                it.0.map(|f| render(&f)).collect()
                            })
                            .join()
                            .ok()?;
                        Some(first.into_iter().chain(rest).collect())
                    }
                })
                .unwrap_or_default();
                if got != alone {
                    return Some((
                        format!("iterator-continued-on-another-thread-differs target={}", if use_cache { "cache" } else { "mapper" }),
                        format!(
                            "remap_frame({:?},{:?},{}) consumed one step on thread A and finished on thread B (which had issued {} frame queries before): {:?}, on one thread: {:?}",
                            c, m, l, warm, got, alone
                        ),
                    ));
                }
            }
        }
    }
    None
}

/// One query repeated tens of thousands of times on one long-lived handle (hit counters reaching
/// 16-bit limits, usage statistics that age, ...), then everything asked once more.
fn repeat_phase<'b, 'm, 'c: 'b, 'p: 'b>(sh: &'b Shared<'m, 'c, 'p>, jobs: &'b [&'b Job], reference: &[String]) -> Option<(String, String)> {
    const REPEATS: usize = 70_000;
    for (k, job) in jobs.iter().enumerate().filter(|(_, j)| matches!(j.q, Query::Method(..) | Query::Class(_) | Query::Signature(_))).take(3) {
        for r in 0..REPEATS {
            let got = guarded_answer(sh, job, &mut || false);
            if got != reference[k] {
                return Some((
                    format!("answer-changes-after-many-repetitions target={}", job.target.name()),
                    format!("{} answered {:?} the first time and {:?} at repetition {} on the same handle", job.describe(), reference[k], got, r),
                ));
            }
        }
    }
    for (k, job) in jobs.iter().enumerate() {
        let got = guarded_answer(sh, job, &mut || false);
        if got != reference[k] {
            return Some((
                format!("answer-changes-after-many-repetitions target={}", job.target.name()),
                format!("after 70000 repetitions of other queries {} answers {:?}, alone {:?}", job.describe(), got, reference[k]),
            ));
        }
    }
    None
}

fn violates(sc: &Scenario, class: &str) -> bool {
    matches!(run_scenario(sc, true).violation, Some((c, _)) if c == class)
}

pub fn minimise(v: &Violation) -> Violation {
    start_minimise_clock(40);
    let Some(mut sc) = Scenario::from_json(&v.case) else { return v.clone() };
    let class = v.class.clone();
    if !violates(&sc, &class) {
        return v.clone();
    }
    let mut budget = 150usize;
    // 0. drop the second handle set
    if sc.mapping2.is_some() {
        let mut cand = sc.clone();
        cand.mapping2 = None;
        for b in cand.batches.iter_mut() {
            b.retain(|j| j.set == 0);
        }
        cand.batches.retain(|b| !b.is_empty());
        if !cand.batches.is_empty() && violates(&cand, &class) {
            sc = cand;
        }
    }
    // 1. drop whole threads
    let mut t = 0;
    while sc.batches.len() > 1 && t < sc.batches.len() && budget > 0 {
        let mut cand = sc.clone();
        cand.batches.remove(t);
        budget -= 1;
        if violates(&cand, &class) {
            sc = cand;
        } else {
            t += 1;
        }
    }
    // 2. drop jobs inside each thread
    for t in 0..sc.batches.len() {
        let jobs = sc.batches[t].clone();
        let base = sc.clone();
        let min = ddmin(&jobs, &mut budget, &mut |js| {
            let mut cand = base.clone();
            cand.batches[t] = js.to_vec();
            violates(&cand, &class)
        });
        sc.batches[t] = min;
    }
    // 3. simpler policy / no nesting
    for (policy, nested) in [(Policy::RunToCompletion, 0), (sc.policy, 0), (Policy::Uniform, sc.nested_pct)] {
        let mut cand = sc.clone();
        cand.policy = policy;
        cand.nested_pct = nested;
        cand.fork_pct = if nested == 0 { 0 } else { sc.fork_pct };
        if budget > 0 && violates(&cand, &class) {
            sc = cand;
            break;
        }
        budget = budget.saturating_sub(1);
    }
    // 4. mapping lines
    let lines = split_lines(&sc.mapping);
    let base = sc.clone();
    let min_lines = ddmin(&lines, &mut budget, &mut |ls| {
        let mut cand = base.clone();
        cand.mapping = join_lines(ls);
        violates(&cand, &class)
    });
    sc.mapping = join_lines(&min_lines);
    let r = run_scenario(&sc, true);
    match r.violation {
        Some((c, message)) if c == class => {
            let mut case = sc.to_json();
            case["minimised_from"] = json!({"threads": v.case["batches"].as_array().map(|a| a.len()), "mapping_bytes": bytes_from_json(&v.case["mapping"]).map(|m| m.len())});
            case["schedule"] = json!({"steps": r.steps, "switches": r.switches, "digest": format!("{:016x}", r.schedule_digest)});
            Violation { property: "C20".into(), run: v.run, class, message, case }
        }
        _ => v.clone(),
    }
}

pub fn replay(doc: &Value) -> i32 {
    if doc["case"]["phase"].as_str() == Some("capacity") {
        let seed: u64 = doc["case"]["seed"].as_str().and_then(|s| s.parse().ok()).unwrap_or(0);
        return match capacity_phase(seed) {
            Some(v) => {
                println!("reproduced: class={} :: {}", v.class, v.message);
                1
            }
            None => {
                println!("not reproduced (free-running phase: the schedule is not recorded)");
                0
            }
        };
    }
    let Some(sc) = Scenario::from_json(&doc["case"]) else {
        eprintln!("replay: malformed C20 case");
        return 2;
    };
    let r = run_scenario(&sc, true);
    println!(
        "replay C20: threads={} jobs={} policy={:?} steps={} switches={} schedule={:016x}",
        sc.batches.len(),
        r.jobs,
        sc.policy,
        r.steps,
        r.switches,
        r.schedule_digest
    );
    match r.violation {
        Some((class, msg)) => {
            println!("reproduced: class={} :: {}", class, msg);
            1
        }
        None => {
            println!("not reproduced: the property holds on this case");
            0
        }
    }
}

/// Capacity phase — the second place (after C14's overlap phase) where the simulator does NOT decide the
/// interleaving. One long-lived handle set over a mapping with 5 000 classes first serves thousands of
/// distinct keys from a single thread (memo structures reach their capacity), then eight unconstrained
/// threads issue new distinct keys, class lookups and typed traces with cause chains at the same time.
/// Lock-order inversions and re-entrant read locks inside the library only bite when two callers are
/// really inside a call together; under the baton exactly one thread runs. Oracle: every answer
/// equals the alone answer, and everything returns within 30 s (a hang is the verdict). A failure here
/// is replayed by re-running the phase, not from a recorded schedule.
fn capacity_phase(seed: u64) -> Option<Violation> {
    (0..3).find_map(|round| capacity_round(seed, round))
}

fn capacity_round(seed: u64, round: u64) -> Option<Violation> {
    let mut rng = Rng::new(run_seed(seed, "C20.capacity", round));
    let mut mapping: Vec<u8> = Vec::new();
    for c in 0..5000 {
        mapping.extend_from_slice(format!("com.example.k{}.Type{} -> k{}.c{}:\n    1:3:void run{}():10:12 -> a\n", c % 31, c, c % 17, c, c % 7).as_bytes());
    }
    let inputs = Inputs::new(&[mapping])?;
    let names: Vec<String> = (0..5000).map(|c| format!("k{}.c{}", c % 17, c)).collect();
    let job = |t: usize, i: usize, names: &[String]| -> Job {
        let c = &names[(i * 7 + t * 13) % names.len()];
        let q = match (i + t) % 5 {
            0 | 3 => Query::Signature(format!("(L{};Lunknown/T{}x{};)L{};", c.replace('.', "/"), t, i, c.replace('.', "/"))),
            1 => Query::Class(format!("missing.T{}x{}", t, i)),
            2 => Query::TraceTyped(format!("{}: top\n    at {}.a(SourceFile:2)\nCaused by: {}: inner\n    at {}.a(SourceFile:1)\nCaused by: missing.C{}: deep\n", c, c, c, c, i)),
            _ => Query::Method(c.clone(), "a".into()),
        };
        Job { via_clone: false, set: 0, target: if (i / 5) % 2 == 0 { Target::Cache } else { Target::MapperParams }, q }
    };
    let per_thread = 6000usize;
    let n_threads = 8usize;
    let _ = rng.next_u64();
    let (tx, rx) = std::sync::mpsc::channel::<Option<(String, String)>>();
    // the worker threads are detached on purpose: if they dead-lock they can never be joined
    let inputs: &'static Inputs = Box::leak(Box::new(inputs));
    let names: &'static Vec<String> = Box::leak(Box::new(names));
    std::thread::spawn(move || {
        let Some(shared) = Shared::build_with(inputs, false) else {
            let _ = tx.send(None);
            return;
        };
        let shared: &'static ForceShare<Shared<'static, 'static, 'static>> = Box::leak(Box::new(ForceShare(shared)));
        let fresh: &'static ForceShare<Shared<'static, 'static, 'static>> = match Shared::build_with(inputs, false) {
            Some(f) => Box::leak(Box::new(ForceShare(f))),
            None => {
                let _ = tx.send(None);
                return;
            }
        };
        // warm-up: thousands of distinct keys from one thread
        for (i, c) in names.iter().enumerate() {
            let _ = i;
            for target in [Target::Cache, Target::MapperParams, Target::Mapper] {
                let j = Job { via_clone: false, set: 0, target, q: Query::Signature(format!("(L{};Lwarm/U{};)V", c.replace('.', "/"), i)) };
                let _ = guarded_answer(shared.get(), &j, &mut || false);
            }
            let j2 = Job { via_clone: false, set: 0, target: Target::Cache, q: Query::Class(c.clone()) };
            let _ = guarded_answer(shared.get(), &j2, &mut || false);
        }
        let barrier = std::sync::Arc::new(std::sync::Barrier::new(n_threads));
        let (dtx, drx) = std::sync::mpsc::channel::<Option<(String, String)>>();
        for t in 0..n_threads {
            let barrier = barrier.clone();
            let dtx = dtx.clone();
            std::thread::spawn(move || {
                barrier.wait();
                for i in 0..per_thread {
                    let j = job(t, i, names);
                    let got = guarded_answer(shared.get(), &j, &mut || false);
                    let alone = guarded_answer(fresh.get(), &j, &mut || false);
                    if got != alone {
                        let _ = dtx.send(Some((
                            format!("parallel-answer-differs-at-capacity target={}", j.target.name()),
                            format!("thread {} call {} {}: on the loaded shared handles {:?}, on handles nobody else uses {:?}", t, i, j.describe(), got, alone),
                        )));
                        return;
                    }
                }
                let _ = dtx.send(None);
            });
        }
        drop(dtx);
        let mut verdict = None;
        for _ in 0..n_threads {
            match drx.recv() {
                Ok(Some(v)) => {
                    verdict = Some(v);
                    break;
                }
                Ok(None) => {}
                Err(_) => break,
            }
        }
        let _ = tx.send(verdict);
    });
    match rx.recv_timeout(std::time::Duration::from_secs(30)) {
        Ok(None) => None,
        Ok(Some((class, message))) => Some(Violation { property: "C20".into(), run: 0, class, message, case: json!({"phase": "capacity", "seed": seed.to_string(), "note": "free-running threads: replay = re-run `pgsim c20-capacity --seed <seed>`"}) }),
        Err(_) => Some(Violation {
            property: "C20".into(),
            run: 0,
            class: "queries-do-not-terminate-under-parallel-load".into(),
            message: "capacity phase: eight threads on one long-lived handle set (5000 classes, memo structures at capacity) did not finish within 30 s — a dead-lock inside the library".into(),
            case: json!({"phase": "capacity", "seed": seed.to_string(), "note": "free-running threads: replay = re-run `pgsim c20-capacity --seed <seed>`"}),
        }),
    }
}

/// `pgsim c20-capacity`: the capacity phase alone (also the replay of a violation found by it).
pub fn capacity_main(env: &Env) -> i32 {
    match capacity_phase(env.seed) {
        Some(v) => {
            println!("violation class: {}", v.class);
            println!("violation: {}", v.message);
            1
        }
        None => {
            println!("capacity phase ok");
            0
        }
    }
}

pub fn main(env: &Env) -> i32 {
    let mut rep = Report::new("C20", "exploration", env);
    rep.expected_probes = vec!["policy.uniform", "policy.pct", "policy.run_to_completion", "runs_with_nested_queries_inside_iterator_steps", "context_switches", "scheduling_points", "threads.2", "threads.12", "runs_with_two_handle_sets", "runs_with_forked_iterators", "long_runs_300_plus_calls_per_thread", "jobs_via_cloned_handles", "jobs_on_mapping_sections", "capacity_phase_runs"];
    rep.real.push("real std::thread OS threads, real thread-locals, real lazy_static Once behind ProguardMapping::uuid".into());
    rep.stubs = vec!["the scheduler: a seeded baton releases exactly one thread at a time; scheduling points between library calls and between next() calls of frame iterators".into()];
    rep.assumptions = vec![
        "D1 interleaves at the granularity of whole library calls and iterator steps; preemption inside a call is explored by the Miri engine (secondary_engines.miri)".into(),
        "reference answer = the same query on a fresh thread against freshly built handles".into(),
        "the Send + Sync clause is decided by the autotraits crate (secondary_engines.autotraits), not here".into(),
    ];
    let seed = env.seed;
    let thorough = env.thorough;
    let n = if thorough { env.scaled(100_000) } else { env.scaled(3_000) };
    let corpus: Vec<(String, Vec<u8>)> = gen::corpus(false).into_iter().filter(|(_, b)| b.len() < 40_000).collect();
    rep.rule = format!(
        "{} seeded scenarios + {} corpus-file scenarios: a generated mapping (0..8 classes x 0..10 members) is written and parsed once; one cache, one mapper, one mapper-with-params and one mapping are shared by 2..{} real threads; \
         each thread owns 1..{} jobs drawn from the query universe with a hot set (incl. uuid/summary/has_line_info/is_valid); the baton (uniform / PCT depth 1..4 / run-to-completion, chosen per run) decides every switch; \
         frame iterators yield between next() calls and with 0/15/40% probability run the thread's next job nested inside a step. Oracle: every answer equals the same job alone on a fresh thread + fresh handles; afterwards the shared handles are re-queried alone. \
         distinct_nontrivial = distinct schedule digests among runs with at least one context switch.",
        n,
        corpus.len(),
        if thorough { 16 } else { 12 },
        if thorough { 40 } else { 30 }
    );
    let n_total = n + corpus.len() as u64;
    // (every scenario creates its own threads; more than ~6 scenario workers only contend in the kernel)
    let (st, mut vs) = run_indexed(n_total, env.workers.min(6), 2, |i, st, vs| {
        let mut rng = Rng::new(run_seed(seed, "C20", i));
        let mapping = if i < n { gen::gen_case(&mut rng, 8, 10).1 } else { corpus[(i - n) as usize].1.clone() };
        let sc = build_scenario(&mut rng, mapping, if thorough { 16 } else { 12 }, if thorough { 40 } else { 30 });
        let r = run_scenario(&sc, true);
        st.add("jobs", r.jobs);
        st.add("scheduling_points", r.steps);
        st.add("context_switches", r.switches);
        st.add("baton_stalls_resolved", r.stalls);
        st.inc(&format!("threads.{}", sc.batches.len()));
        st.inc(match sc.policy {
            Policy::Uniform => "policy.uniform",
            Policy::Pct { .. } => "policy.pct",
            Policy::RunToCompletion => "policy.run_to_completion",
        });
        if sc.nested_pct > 0 {
            st.inc("runs_with_nested_queries_inside_iterator_steps");
        }
        if sc.mapping2.is_some() {
            st.inc("runs_with_two_handle_sets");
        }
        if sc.fork_pct > 0 {
            st.inc("runs_with_forked_iterators");
        }
        if sc.batches.iter().any(|b| b.len() >= 300) {
            st.inc("long_runs_300_plus_calls_per_thread");
        }
        st.add("jobs_via_cloned_handles", sc.batches.iter().flatten().filter(|j| j.via_clone).count() as u64);
        st.add("jobs_on_mapping_sections", sc.batches.iter().flatten().filter(|j| matches!(j.q, Query::MapSection(_))).count() as u64);
        if r.switches > 0 {
            let mut d = Digest::default();
            d.u64(r.schedule_digest);
            d.u64(digest_bytes(&sc.mapping));
            st.note_distinct(d.finish());
        }
        if i < 2 {
            st.samples.push(json!({"threads": sc.batches.len(), "policy": format!("{:?}", sc.policy), "jobs_thread0": sc.batches[0].iter().take(4).map(|j| j.describe()).collect::<Vec<_>>(),
                "scheduling_points": r.steps, "context_switches": r.switches, "schedule_digest": format!("{:016x}", r.schedule_digest)}));
        }
        if let Some((class, message)) = r.violation {
            if vs.len() < 4 {
                vs.push(Violation { property: "C20".into(), run: i, class, message, case: sc.to_json() });
            }
        }
        st.run_done(r.log);
    });
    let mut vs: Vec<Violation> = vs.drain(..).take(2).map(|v| minimise(&v)).collect();
    let mut st = st;
    if vs.is_empty() {
        st.inc("capacity_phase_runs");
        if let Some(v) = capacity_phase(seed) {
            vs.push(v);
        }
    }
    rep.write(&st, st.runs, st.distinct.len() as u64, vs.len(), None);
    println!(
        "C20 {}: scenarios={} jobs={} scheduling_points={} context_switches={} distinct_schedules={} digest={:016x}",
        env.tier(),
        st.runs,
        st.get("jobs"),
        st.get("scheduling_points"),
        st.get("context_switches"),
        st.distinct.len(),
        st.digest_sum
    );
    conclude("C20", "threads", seed, &vs)
}

// ---------------------------------------------------------------------------------------------
// D2: the Miri entry point. One fixed, small workload per invocation (argv decides it); Miri's
// own seed decides preemption, addresses and hash entropy. No baton: Miri preempts anywhere.

pub fn miri_main(args: &[String]) -> i32 {
    let wseed: u64 = arg_value(args, "--wseed").and_then(|s| s.parse().ok()).unwrap_or(1);
    if arg_value(args, "--mode").as_deref() == Some("longcall") {
        return miri_longcall(wseed, arg_value(args, "--threads").and_then(|s| s.parse().ok()).unwrap_or(3));
    }
    if arg_value(args, "--mode").as_deref() == Some("crowd") {
        return miri_crowd(wseed, arg_value(args, "--threads").and_then(|s| s.parse().ok()).unwrap_or(12));
    }
    let hammer: usize = arg_value(args, "--hammer").and_then(|s| s.parse().ok()).unwrap_or(12);
    let n_threads: usize = arg_value(args, "--threads").and_then(|s| s.parse().ok()).unwrap_or(3);
    let mut rng = Rng::new(run_seed(wseed, "C20.miri", 0));
    // small but non-trivial mapping: three classes, an inline group, overloads, a source file
    let mapping: Vec<u8> = if wseed % 2 == 0 {
        b"com.example.Foo -> a.a:\n# {\"id\":\"sourceFile\",\"fileName\":\"Foo.kt\"}\n    1:3:void run():10:12 -> a\n    4:4:void x.Y.inl():7:7 -> a\n    4:4:void go(int):20 -> a\n    void go(int,int) -> b\ncom.example.Bar -> a.b:\n    5:9:int calc(java.lang.String):30:34 -> a\n    void <init>() -> <init>\ncom.example.Baz -> a.c:\n    1:1:void z():1:1 -> a\ncom.example.Big -> a.d:\n    1:1:void same():1:1 -> z\n    2:2:void same():2:2 -> z\n    3:3:void same():3:3 -> z\n    4:4:void same():4:4 -> z\n    5:5:void same():5:5 -> z\n    6:6:void same():6:6 -> z\n    7:7:void same():7:7 -> z\n    8:8:void other():8:8 -> z\n    1:1:void uniq():1:1 -> u\n    2:2:void uniq():2:2 -> u\n    3:3:void uniq():3:3 -> u\n    4:4:void uniq():4:4 -> u\n    5:5:void uniq():5:5 -> u\n    6:6:void uniq():6:6 -> u\n    7:7:void uniq():7:7 -> u\ncom.example.Touch -> a.e:\n    1:11:void seg0():1:11 -> t\n    11:21:void seg1():11:21 -> t\n    21:31:void seg2():21:31 -> t\n    31:41:void seg3():31:41 -> t\n    41:51:void seg4():41:51 -> t\n    51:61:void seg5():51:61 -> t\n    61:71:void seg6():61:71 -> t\n    71:81:void seg7():71:81 -> t\n    81:91:void seg8():81:91 -> t\n    91:101:void seg9():91:101 -> t\n    101:111:void seg10():101:111 -> t\n    111:121:void seg11():111:121 -> t\n    121:131:void seg12():121:131 -> t\n    131:141:void seg13():131:141 -> t\n    141:151:void seg14():141:151 -> t\n    151:161:void seg15():151:161 -> t\n    161:171:void seg16():161:171 -> t\n    171:181:void seg17():171:181 -> t\n    181:191:void seg18():181:191 -> t\n    191:201:void seg19():191:201 -> t\n    201:211:void seg20():201:211 -> t\n    211:221:void seg21():211:221 -> t\n    221:231:void seg22():221:231 -> t\n    231:241:void seg23():231:241 -> t\n    241:251:void seg24():241:251 -> t\n    251:261:void seg25():251:261 -> t\n    261:271:void seg26():261:271 -> t\n    271:281:void seg27():271:281 -> t\n    281:291:void seg28():281:291 -> t\n    291:301:void seg29():291:301 -> t\n    301:311:void seg30():301:311 -> t\n    311:321:void seg31():311:321 -> t\n    321:331:void seg32():321:331 -> t\n    331:341:void seg33():331:341 -> t\n".to_vec()
    } else {
        let mut m = gen::gen_case(&mut rng, 4, 4).1;
        if crate::universe::scan(&m).iter().filter(|c| !c.methods.is_empty()).count() < 2 {
            m = b"x.Y -> a:\n    1:1:void f():3:3 -> a\nx.Z -> b:\n    2:2:void g(int):4:4 -> a\nx.W -> c:\n    void h() -> a\n".to_vec();
        }
        m
    };
    let classes: Vec<crate::universe::ClassInfo> = {
        // distinct obfuscated names only, classes with methods first
        let mut seen: Vec<String> = Vec::new();
        let mut v: Vec<crate::universe::ClassInfo> = crate::universe::scan(&mapping).into_iter().filter(|c| if seen.contains(&c.obf) { false } else { seen.push(c.obf.clone()); true }).collect();
        v.sort_by_key(|c| c.methods.is_empty());
        v
    };
    // second, independent handle set: a same-length variant of the first mapping
    let mapping2: Vec<u8> = {
        let t = String::from_utf8_lossy(&mapping).to_string();
        let v = t.replace("com.example", "org.exampel").replace("x.", "y.");
        let _ = v;
        b"q.Q -> a.a:\n    1:1:void other():9:9 -> a\nq.R -> a.b:\n".to_vec()
    };
    let inputs = Inputs::new(&[mapping.clone(), mapping2.clone()]).expect("inputs");
    let inputs = &inputs;

    // ---- phase B material: cheap direct calls on a per-thread class, expected values from fresh handles
    struct Probe {
        class: String,
        method: String,
        line: usize,
        exp_class_cache: Option<String>,
        exp_class_mapper: Option<String>,
        exp_method_cache: Option<(String, String)>,
        exp_frames_cache: Vec<(String, String, usize)>,
    }
    let probes: Vec<Probe> = {
        let fresh_all = Shared::build_with(inputs, false).expect("fresh handles");
        let fresh = &fresh_all.sets[0];
        classes
            .iter()
            .take(3)
            .map(|c| {
                let method = c.methods.keys().next().cloned().unwrap_or_else(|| "a".into());
                let line = c.methods.values().next().and_then(|mi| mi.ranges.first()).map(|r| r.0).unwrap_or(1);
                let f = cur::StackFrame::new(&c.obf, &method, line);
                Probe {
                    exp_class_cache: fresh.cache.remap_class(&c.obf).map(|s| s.to_string()),
                    exp_class_mapper: fresh.mapper_p.remap_class(&c.obf).map(|s| s.to_string()),
                    exp_method_cache: fresh.cache.remap_method(&c.obf, &method).map(|(a, b)| (a.to_string(), b.to_string())),
                    exp_frames_cache: fresh.cache.remap_frame(&f).map(|fr| (fr.class().to_string(), fr.method().to_string(), fr.line())).collect(),
                    class: c.obf.clone(),
                    method,
                    line,
                }
            })
            .collect()
    };

    // ---- phase A material: one systematic pass over every API kind
    let mut list: Vec<Job> = Vec::new();
    for t in [Target::Cache, Target::MapperParams] {
        for c in classes.iter().take(2) {
            let m = c.methods.keys().next().cloned().unwrap_or_else(|| "a".into());
            let line = c.methods.values().next().and_then(|mi| mi.ranges.first()).map(|r| r.0).unwrap_or(1);
            let params = c.methods.values().next().and_then(|mi| mi.args.first()).cloned().unwrap_or_default();
            list.push(Job { via_clone: false, set: 0, target: t, q: Query::Method(c.obf.clone(), m.clone()) });
            list.push(Job { via_clone: false, set: 0, target: t, q: Query::FrameLine { class: c.obf.clone(), method: m.clone(), line, file: Some("SourceFile".into()) } });
            list.push(Job { via_clone: false, set: 0, target: t, q: Query::FrameLine { class: c.obf.clone(), method: "nope".into(), line: 1, file: None } });
            list.push(Job { via_clone: false, set: 0, target: t, q: Query::FrameParams { class: c.obf.clone(), method: m, params } });
        }
        let c0 = classes.first().map(|c| c.obf.clone()).unwrap_or_else(|| "a".into());
        list.push(Job { via_clone: false, set: 0, target: t, q: Query::Throwable { class: c0.clone(), msg: Some("boom".into()) } });
        list.push(Job { via_clone: false, set: 0, target: t, q: Query::Signature(format!("(L{};I)L{};", c0.replace('.', "/"), c0.replace('.', "/"))) });
        list.push(Job { via_clone: false, set: 0, target: t, q: Query::TraceText(format!("{}: Crash\n    at {}.a(SourceFile:4)\nCaused by: {}: inner\n", c0, c0, c0)) });
        list.push(Job { via_clone: false, set: 0, target: t, q: Query::Class("zzz.unknown".into()) });
    }
    list.push(Job { via_clone: false, set: 0, target: Target::Mapper, q: Query::Class(classes.first().map(|c| c.obf.clone()).unwrap_or_default()) });
    list.push(Job { via_clone: false, set: 0, target: Target::Cache, q: Query::TraceTyped(format!("    at {}.a(SourceFile:1)", classes.first().map(|c| c.obf.clone()).unwrap_or_default())) });
    list.push(Job { via_clone: false, set: 0, target: Target::Mapping, q: Query::MapSummary });
    list.push(Job { via_clone: false, set: 0, target: Target::Mapping, q: Query::MapHasLineInfo });
    // the same questions to the second handle set (global state keyed too coarsely would mix them up)
    let c0 = classes.first().map(|c| c.obf.clone()).unwrap_or_default();
    for q in [Query::MapUuid, Query::MapSummary, Query::MapHasLineInfo, Query::MapIsValid] {
        list.push(Job { via_clone: false, set: 1, target: Target::Mapping, q });
    }
    list.push(Job { via_clone: false, set: 1, target: Target::Cache, q: Query::Class(c0.clone()) });
    list.push(Job { via_clone: false, set: 1, target: Target::MapperParams, q: Query::Class(c0.clone()) });
    list.push(Job { via_clone: false, set: 1, target: Target::Cache, q: Query::Signature(format!("(L{};)V", c0.replace('.', "/"))) });
    list.push(Job { via_clone: false, set: 1, target: Target::MapperParams, q: Query::Signature(format!("(L{};)V", c0.replace('.', "/"))) });
    let batches: Vec<Vec<Job>> = (0..n_threads)
        .map(|t| {
            let rot = (t * 5 + rng.usize_below(list.len())) % list.len();
            let mut b: Vec<Job> = list[rot..].to_vec();
            b.extend(list[..rot].iter().cloned());
            b
        })
        .collect();

    // ---- phase 0 material: the SAME queries in the SAME order on every thread, behind a barrier, on
    // entries with rich structure (many lines, ambiguity that shows late, inline groups): races on the
    // FIRST use of lazily computed per-entry or per-handle state need exactly this.
    let mut first_use: Vec<Job> = Vec::new();
    let rich: Vec<&crate::universe::ClassInfo> = {
        let mut v: Vec<&crate::universe::ClassInfo> = classes.iter().collect();
        v.sort_by_key(|c| std::cmp::Reverse(c.methods.values().map(|m| m.ranges.len()).max().unwrap_or(0)));
        v.into_iter().take(2).collect()
    };
    for t in [Target::Mapper, Target::MapperParams, Target::Cache] {
        for c in &rich {
            let mut ms: Vec<(&String, &crate::universe::MethodInfo)> = c.methods.iter().collect();
            ms.sort_by_key(|(_, mi)| std::cmp::Reverse(mi.ranges.len()));
            for (m, mi) in ms.into_iter().take(2) {
                first_use.push(Job { via_clone: false, set: 0, target: t, q: Query::Method(c.obf.clone(), m.clone()) });
                let line = mi.ranges.last().map(|r| r.0).unwrap_or(1);
                first_use.push(Job { via_clone: false, set: 0, target: t, q: Query::FrameLine { class: c.obf.clone(), method: m.clone(), line, file: None } });
                // a line shared by two touching ranges (end of one == start of the next), if any
                if let Some(shared_line) = mi.ranges.iter().find_map(|r| mi.ranges.iter().find(|o| o.0 == r.1 && *o != r).map(|_| r.1)) {
                    first_use.push(Job { via_clone: false, set: 0, target: t, q: Query::FrameLine { class: c.obf.clone(), method: m.clone(), line: shared_line, file: None } });
                }
                first_use.push(Job { via_clone: false, set: 0, target: t, q: Query::FrameParams { class: c.obf.clone(), method: m.clone(), params: mi.args.first().cloned().unwrap_or_default() } });
            }
        }
    }
    if std::env::var("PGSIM_DEBUG").is_ok() {
        for j in &first_use {
            eprintln!("first_use: {}", j.describe());
        }
    }
    let first_use = &first_use;
    let barrier = std::sync::Barrier::new(n_threads);
    let barrier = &barrier;

    let Some(shared) = Shared::build_with(inputs, false) else {
        println!("MIRI-C20 harness: cannot build handles");
        return 2;
    };
    let shared = ForceShare(shared);
    let batches = &batches;
    let probes = &probes;
    type Out = (String, Option<String>, Vec<String>, Vec<String>);
    let results: Vec<Out> = std::thread::scope(|s| {
        let hs: Vec<_> = (0..n_threads)
            .map(|me| {
                let shared = &shared;
                s.spawn(move || -> Out {
                    let sh_all = shared.get();
                    let sh = &sh_all.sets[0];
                    // 0. everybody starts together
                    barrier.wait();
                    // 1. first use of the lazily initialised UUID namespace, concurrently
                    let uuid = api::answer_mapping(&sh.mapping, &Query::MapUuid);
                    // 1b. synchronised first use of rich entries: same queries, same order, all threads
                    let first_answers = first_use.iter().map(|j| answer_job(sh_all, j, &mut || false)).collect::<Vec<String>>();
                    // 2. hammer: cheap calls on "my" class while the other threads hammer theirs
                    let mut bad: Option<String> = None;
                    if !probes.is_empty() {
                        let p = &probes[me % probes.len()];
                        let f = cur::StackFrame::new(&p.class, &p.method, p.line);
                        for it in 0..hammer {
                            let a = sh.cache.remap_class(&p.class);
                            if a != p.exp_class_cache.as_deref() && bad.is_none() {
                                bad = Some(format!("iteration {} cache.remap_class({:?}) -> {:?}, alone -> {:?}", it, p.class, a, p.exp_class_cache));
                            }
                            let b = sh.cache.remap_method(&p.class, &p.method);
                            let eb = p.exp_method_cache.as_ref().map(|(x, y)| (x.as_str(), y.as_str()));
                            if b != eb && bad.is_none() {
                                bad = Some(format!("iteration {} cache.remap_method({:?},{:?}) -> {:?}, alone -> {:?}", it, p.class, p.method, b, eb));
                            }
                            let mut k = 0;
                            for fr in sh.cache.remap_frame(&f) {
                                let e = p.exp_frames_cache.get(k);
                                if e.map(|e| (e.0.as_str(), e.1.as_str(), e.2)) != Some((fr.class(), fr.method(), fr.line())) && bad.is_none() {
                                    bad = Some(format!("iteration {} cache.remap_frame({:?},{:?},{}) frame {} -> {}.{}:{}, alone -> {:?}", it, p.class, p.method, p.line, k, fr.class(), fr.method(), fr.line(), e));
                                }
                                k += 1;
                            }
                            if k != p.exp_frames_cache.len() && bad.is_none() {
                                bad = Some(format!("iteration {} cache.remap_frame({:?},{:?},{}) -> {} frames, alone -> {}", it, p.class, p.method, p.line, k, p.exp_frames_cache.len()));
                            }
                            let c = sh.mapper_p.remap_class(&p.class);
                            if c != p.exp_class_mapper.as_deref() && bad.is_none() {
                                bad = Some(format!("iteration {} mapper.remap_class({:?}) -> {:?}, alone -> {:?}", it, p.class, c, p.exp_class_mapper));
                            }
                        }
                    }
                    // 3. one systematic pass over every API kind
                    let answers = batches[me].iter().map(|j| answer_job(sh_all, j, &mut || false)).collect::<Vec<String>>();
                    (uuid, bad, answers, first_answers)
                })
            })
            .collect();
        hs.into_iter().map(|h| h.join().expect("worker thread panicked")).collect()
    });
    // reference afterwards: each distinct job alone on fresh handles
    let mut d = Digest::default();
    let fresh = Shared::build_with(inputs, false).expect("fresh handles");
    let exp_uuid = api::answer_mapping(&fresh.sets[0].mapping, &Query::MapUuid);
    let mut memo: std::collections::HashMap<(usize, Target, &Query), String> = std::collections::HashMap::new();
    for (t, (uuid, bad, answers, first_answers)) in results.iter().enumerate() {
        for (i, j) in first_use.iter().enumerate() {
            let e = memo.entry((j.set, j.target, &j.q)).or_insert_with(|| answer_job(&fresh, j, &mut || false)).clone();
            if e != first_answers[i] {
                println!("MIRI-C20 VIOLATION thread={} synchronised first use: {} alone={:?} concurrent={:?}", t, j.describe(), e, first_answers[i]);
                return 1;
            }
        }
        if *uuid != exp_uuid {
            println!("MIRI-C20 VIOLATION thread={} mapping.uuid() concurrent first use -> {} alone -> {}", t, uuid, exp_uuid);
            return 1;
        }
        if let Some(b) = bad {
            println!("MIRI-C20 VIOLATION thread={} hammer phase: {}", t, b);
            return 1;
        }
        for (i, j) in batches[t].iter().enumerate() {
            // reference: a fresh handle set nobody else has touched (history dependence is D1's business)
            let e = memo.entry((j.set, j.target, &j.q)).or_insert_with(|| answer_job(&fresh, j, &mut || false)).clone();
            d.str(&e);
            if e != answers[i] {
                println!("MIRI-C20 VIOLATION thread={} job={} {} alone={:?} concurrent={:?}", t, i, j.describe(), e, answers[i]);
                return 1;
            }
        }
    }
    println!(
        "MIRI-C20 ok wseed={} threads={} hammer_iterations={} systematic_jobs_per_thread={} answers={:016x}",
        wseed,
        n_threads,
        hammer,
        list.len(),
        d.finish()
    );
    0
}

/// Miri "crowd" mode: many threads, few calls each, compound APIs only, deep cause chains. State
/// that is shared by all threads *while they are inside one call* (process-wide counters, shared
/// scratch buffers behind the text / typed stack-trace APIs) only shows when many callers overlap.
pub fn miri_crowd(wseed: u64, n_threads: usize) -> i32 {
    let mapping: Vec<u8> = b"com.example.Foo -> a.a:\n# {\"id\":\"sourceFile\",\"fileName\":\"Foo.kt\"}\n    1:3:void run():10:12 -> a\n    4:4:void x.Y.inl():7:7 -> a\n    4:4:void go(int):20 -> a\ncom.example.Bar -> a.b:\n    5:9:int calc(java.lang.String):30:34 -> a\n".to_vec();
    let inputs = Inputs::new(&[mapping]).expect("inputs");
    let inputs = &inputs;
    let depth = 4 + (wseed % 3) as usize;
    let mut text = String::from("a.a: top\n    at a.a.a(SourceFile:4)\n    at a.b.a(SourceFile:6)\n");
    for d in 0..depth {
        text.push_str(&format!("Caused by: a.{}: level {}\n    at a.a.a(SourceFile:{})\n    at q.r.s(T.java:1)\n", if d % 2 == 0 { "b" } else { "a" }, d, 1 + d % 4));
    }
    let jobs: Vec<Job> = vec![
        Job { via_clone: false, set: 0, target: Target::Cache, q: Query::TraceTyped(text.clone()) },
        Job { via_clone: false, set: 0, target: Target::MapperParams, q: Query::TraceTyped(text.clone()) },
        Job { via_clone: false, set: 0, target: Target::Cache, q: Query::TraceText(text.clone()) },
        Job { via_clone: false, set: 0, target: Target::Mapper, q: Query::Signature("(La/a;La/b;)La/a;".into()) },
    ];
    let jobs = &jobs;
    let Some(shared) = Shared::build_with(inputs, false) else { return 2 };
    let shared = ForceShare(shared);
    let barrier = std::sync::Barrier::new(n_threads);
    let barrier = &barrier;
    let answers: Vec<Vec<String>> = std::thread::scope(|s| {
        let hs: Vec<_> = (0..n_threads)
            .map(|me| {
                let shared = &shared;
                s.spawn(move || {
                    let sh = shared.get();
                    barrier.wait();
                    (0..jobs.len()).map(|k| answer_job(sh, &jobs[(k + me) % jobs.len()], &mut || false)).collect::<Vec<String>>()
                })
            })
            .collect();
        hs.into_iter().map(|h| h.join().expect("worker thread panicked")).collect()
    });
    let mut d = Digest::default();
    let own = Shared::build_with(inputs, false).expect("fresh handles");
    for (k, j) in jobs.iter().enumerate() {
        let e = answer_job(&own, j, &mut || false);
        d.str(&e);
        for (t, a) in answers.iter().enumerate() {
            let idx = (k + jobs.len() - t % jobs.len()) % jobs.len();
            if a[idx] != e {
                println!("MIRI-C20 VIOLATION crowd thread={} {} alone={:?} concurrent={:?}", t, j.describe(), e, a[idx]);
                return 1;
            }
        }
    }
    println!("MIRI-C20 ok mode=crowd wseed={} threads={} cause_chain_depth={} jobs_per_thread={} answers={:016x}", wseed, n_threads, depth, jobs.len(), d.finish());
    0
}

/// Miri "long call" mode: thread 0 sits inside one very long call (a signature with hundreds of
/// parameters, a trace with hundreds of lines) while the other threads push many *distinct* short calls
/// of the same API through the same handle; afterwards every key is asked again, most recent first.
/// Bounded memo structures (rings, LRUs) that are claimed before and filled after the work wrap around
/// during the long call; Miri's round-robin preemption gives the long call its many time slices.
pub fn miri_longcall(wseed: u64, n_threads: usize) -> i32 {
    let mapping: Vec<u8> = b"com.example.Foo -> a.a:\n    1:3:void run():10:12 -> a\ncom.example.Bar -> a.b:\n    5:9:int calc(java.lang.String):30:34 -> a\n".to_vec();
    let inputs = Inputs::new(&[mapping]).expect("inputs");
    let inputs = &inputs;
    let shorts_per_thread = 40 + (wseed % 3) as usize * 2;
    let letters = ["I", "J", "Z", "B", "La/a;", "[I", "La/b;", "S"];
    let short_sig = |i: usize| -> String {
        let mut n = i + 8;
        let mut p = String::from("(");
        while n > 0 {
            p.push_str(letters[n % 8]);
            n /= 8;
        }
        // every third one is invalid (no return type): alone it answers None
        if i % 3 == 0 {
            p.push(')');
        } else {
            p.push_str(")V");
        }
        p
    };
    let long_sig: String = format!("({})La/a;", "La/a;I[JLa/b;".repeat(90 + (wseed % 4) as usize * 10));
    let long_trace: String = {
        let mut t = String::from("a.a: top\n");
        for i in 0..(60 + (wseed % 4) * 10) {
            t.push_str(&format!("    at a.{}.a(SourceFile:{})\n", if i % 2 == 0 { "a" } else { "b" }, 1 + i % 9));
        }
        t
    };
    let short_trace = |i: usize| -> String { format!("a.{}: e{}\n    at a.a.a(SourceFile:{})\n    ... {} more", if i % 2 == 0 { "a" } else { "b" }, i, 1 + i % 4, i) };
    // per thread: the ordered list of jobs of the concurrent phase
    let mut batches: Vec<Vec<Job>> = Vec::new();
    for t in 0..n_threads {
        let mut b = Vec::new();
        if t == 0 {
            b.push(Job { via_clone: false, set: 0, target: if wseed % 2 == 0 { Target::Mapper } else { Target::Cache }, q: Query::Signature(long_sig.clone()) });
            if wseed % 4 >= 2 {
                b.push(Job { via_clone: false, set: 0, target: Target::Mapper, q: Query::TraceText(long_trace.clone()) });
            }
        } else {
            for i in 0..shorts_per_thread {
                let k = t * 1000 + i;
                b.push(Job { via_clone: false, set: 0, target: if i % 4 == 3 { Target::Cache } else { Target::Mapper }, q: Query::Signature(short_sig(k)) });
                if wseed % 4 >= 2 && i % 8 == 0 {
                    b.push(Job { via_clone: false, set: 0, target: Target::Mapper, q: Query::TraceText(short_trace(k)) });
                }
            }
        }
        batches.push(b);
    }
    let batches = &batches;
    let Some(shared) = Shared::build_with(inputs, false) else { return 2 };
    let shared = ForceShare(shared);
    let barrier = std::sync::Barrier::new(n_threads);
    let barrier = &barrier;
    // phase 1 concurrently, then (after a barrier) phase 2: thread t re-asks the jobs of thread (t+1) % n, most recent first
    let results: Vec<(Vec<String>, Vec<String>)> = std::thread::scope(|s| {
        let hs: Vec<_> = (0..n_threads)
            .map(|me| {
                let shared = &shared;
                s.spawn(move || {
                    let sh = shared.get();
                    barrier.wait();
                    let first: Vec<String> = batches[me].iter().map(|j| answer_job(sh, j, &mut || false)).collect();
                    barrier.wait();
                    let other = &batches[(me + 1) % n_threads];
                    let again: Vec<String> = other.iter().rev().map(|j| answer_job(sh, j, &mut || false)).collect();
                    (first, again)
                })
            })
            .collect();
        hs.into_iter().map(|h| h.join().expect("worker thread panicked")).collect()
    });
    let own = Shared::build_with(inputs, false).expect("fresh handles");
    let mut d = Digest::default();
    for t in 0..n_threads {
        for (i, j) in batches[t].iter().enumerate() {
            let e = answer_job(&own, j, &mut || false);
            d.str(&e);
            if results[t].0[i] != e {
                println!("MIRI-C20 VIOLATION longcall thread={} first ask {} alone={:?} concurrent={:?}", t, j.describe(), e, results[t].0[i]);
                return 1;
            }
            let asker = (t + n_threads - 1) % n_threads;
            let idx = batches[t].len() - 1 - i;
            if results[asker].1[idx] != e {
                println!("MIRI-C20 VIOLATION longcall thread={} asked again {} alone={:?} after the concurrent phase={:?}", asker, j.describe(), e, results[asker].1[idx]);
                return 1;
            }
        }
    }
    println!(
        "MIRI-C20 ok mode=longcall wseed={} threads={} short_calls_per_thread={} long_signature_bytes={} long_trace_lines={} answers={:016x}",
        wseed,
        n_threads,
        batches.get(1).map(|b| b.len()).unwrap_or(0),
        long_sig.len(),
        long_trace.lines().count(),
        d.finish()
    );
    0
}
