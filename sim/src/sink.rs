//! `SimSink`: the simulated `std::io::Write` sink handed to `ProguardCache::write`.
//! It always obeys the `Write` contract (reports exactly what it accepted, never more than
//! offered) and misbehaves only in the legal ways listed in `FaultKind`.

use crate::rng::{Digest, Rng};
use serde_json::{json, Value};
use std::io::{self, ErrorKind, IoSlice, Write};

#[derive(Clone, Copy, Debug, PartialEq, Eq)]
pub enum ErrK {
    StorageFull,
    BrokenPipe,
    PermissionDenied,
    Other,
    WouldBlock,
    TimedOut,
}

impl ErrK {
    pub const ALL: [ErrK; 6] =
        [ErrK::StorageFull, ErrK::BrokenPipe, ErrK::PermissionDenied, ErrK::Other, ErrK::WouldBlock, ErrK::TimedOut];
    pub fn kind(self) -> ErrorKind {
        match self {
            ErrK::StorageFull => ErrorKind::StorageFull,
            ErrK::BrokenPipe => ErrorKind::BrokenPipe,
            ErrK::PermissionDenied => ErrorKind::PermissionDenied,
            ErrK::Other => ErrorKind::Other,
            ErrK::WouldBlock => ErrorKind::WouldBlock,
            ErrK::TimedOut => ErrorKind::TimedOut,
        }
    }
    /// Kinds nobody may treat as "try again": clause (b) of C15 applies to these only.
    pub fn non_retryable(self) -> bool {
        !matches!(self, ErrK::WouldBlock | ErrK::TimedOut)
    }
    pub fn name(self) -> &'static str {
        match self {
            ErrK::StorageFull => "StorageFull",
            ErrK::BrokenPipe => "BrokenPipe",
            ErrK::PermissionDenied => "PermissionDenied",
            ErrK::Other => "Other",
            ErrK::WouldBlock => "WouldBlock",
            ErrK::TimedOut => "TimedOut",
        }
    }
    pub fn from_name(s: &str) -> Option<ErrK> {
        ErrK::ALL.iter().copied().find(|k| k.name() == s)
    }
}

#[derive(Clone, Copy, Debug, PartialEq, Eq)]
pub enum FaultKind {
    /// accept only `1 + r % (len-1)` bytes at this call
    Short(u32),
    /// `Err(Interrupted)` at this call and the following `burst-1` calls
    Interrupted(u16),
    /// `Err(kind)`; sticky = every later call fails too
    Hard(ErrK, bool),
    /// `Ok(0)` for a non-empty buffer; sticky = forever
    Zero(bool),
}

impl FaultKind {
    pub fn name(&self) -> &'static str {
        match self {
            FaultKind::Short(_) => "short_once",
            FaultKind::Interrupted(_) => "interrupted",
            FaultKind::Hard(_, true) => "hard_sticky",
            FaultKind::Hard(_, false) => "hard_transient",
            FaultKind::Zero(_) => "write_zero",
        }
    }
}

#[derive(Clone, Copy, Debug, PartialEq, Eq)]
pub struct Fault {
    pub at: u64,
    pub kind: FaultKind,
}

#[derive(Clone, Debug, Default, PartialEq, Eq)]
pub struct SinkPlan {
    /// accept at most this many bytes per call
    pub cap: Option<usize>,
    pub faults: Vec<Fault>,
    /// total bytes the "disk" can hold; afterwards StorageFull forever
    pub disk_capacity: Option<usize>,
    /// from this call on the chunk cap is replaced by the given one (a sink whose behaviour changes
    /// in the middle of one write: a pipe that fills up, a socket whose window opens)
    pub cap_switch: Option<(u64, Option<usize>)>,
    /// when the disk capacity is reached the sink answers `Ok(0)` instead of an error — the behaviour of
    /// a fixed-size buffer (`&mut [u8]`, `Cursor<&mut [u8]>`)
    pub full_is_zero: bool,
}

impl SinkPlan {
    pub fn to_json(&self) -> Value {
        json!({
            "cap": self.cap,
            "disk_capacity": self.disk_capacity,
            "cap_switch": self.cap_switch.map(|(at, c)| json!({"at": at, "cap": c})),
            "full_is_zero": self.full_is_zero,
            "faults": self.faults.iter().map(|f| match f.kind {
                FaultKind::Short(r) => json!({"at": f.at, "kind": "short", "r": r}),
                FaultKind::Interrupted(b) => json!({"at": f.at, "kind": "interrupted", "burst": b}),
                FaultKind::Hard(k, s) => json!({"at": f.at, "kind": "hard", "err": k.name(), "sticky": s}),
                FaultKind::Zero(s) => json!({"at": f.at, "kind": "zero", "sticky": s}),
            }).collect::<Vec<_>>(),
        })
    }
    pub fn from_json(v: &Value) -> Option<SinkPlan> {
        let mut p = SinkPlan {
            cap: v.get("cap").and_then(|x| x.as_u64()).map(|x| x as usize),
            disk_capacity: v.get("disk_capacity").and_then(|x| x.as_u64()).map(|x| x as usize),
            cap_switch: v.get("cap_switch").filter(|x| !x.is_null()).and_then(|x| Some((x.get("at")?.as_u64()?, x.get("cap").and_then(|c| c.as_u64()).map(|c| c as usize)))),
            full_is_zero: v.get("full_is_zero").and_then(|x| x.as_bool()).unwrap_or(false),
            faults: Vec::new(),
        };
        for f in v.get("faults")?.as_array()? {
            let at = f.get("at")?.as_u64()?;
            let kind = match f.get("kind")?.as_str()? {
                "short" => FaultKind::Short(f.get("r")?.as_u64()? as u32),
                "interrupted" => FaultKind::Interrupted(f.get("burst")?.as_u64()? as u16),
                "hard" => FaultKind::Hard(ErrK::from_name(f.get("err")?.as_str()?)?, f.get("sticky")?.as_bool()?),
                "zero" => FaultKind::Zero(f.get("sticky")?.as_bool()?),
                _ => return None,
            };
            p.faults.push(Fault { at, kind });
        }
        Some(p)
    }

    /// Seeded multi-fault plan placed inside `0..calls_hint` (no faults after EOF).
    pub fn random(rng: &mut Rng, calls_hint: u64, len_hint: usize) -> SinkPlan {
        let cap = match rng.below(6) {
            0 => None,
            1 => Some(1),
            2 => Some(rng.range(2, 3) as usize),
            3 => Some(rng.range(4, 8) as usize),
            4 => Some(rng.range(9, 16) as usize),
            _ => Some(rng.range(17, 64) as usize),
        };
        // swarm: a random subset of kinds is enabled for this run
        let enabled: Vec<u8> = (0..5u8).filter(|_| rng.chance(1, 2)).collect();
        let mut faults = Vec::new();
        // the number of calls depends on the cap; scale the hint (measured at cap = inf)
        let calls = match cap {
            None => calls_hint.max(1),
            Some(k) => (len_hint as u64 / k as u64 + calls_hint).max(1),
        };
        if !enabled.is_empty() {
            let n = rng.range(1, 6);
            for _ in 0..n {
                let at = if rng.chance(1, 6) {
                    // bias: first / last calls
                    if rng.chance(1, 2) {
                        rng.below(3.min(calls))
                    } else {
                        calls.saturating_sub(1 + rng.below(3))
                    }
                } else {
                    rng.below(calls)
                };
                let kind = match *rng.pick(&enabled) {
                    0 => FaultKind::Short(rng.next_u64() as u32),
                    1 => FaultKind::Interrupted(if rng.chance(1, 6) { *rng.pick(&[63u16, 64, 65, 127, 128, 129, 255, 256, 1000]) } else { rng.range(1, 3) as u16 }),
                    2 => FaultKind::Hard(*rng.pick(&ErrK::ALL), true),
                    3 => FaultKind::Hard(*rng.pick(&ErrK::ALL), false),
                    _ => FaultKind::Zero(rng.chance(1, 2)),
                };
                if !faults.iter().any(|f: &Fault| f.at == at) {
                    faults.push(Fault { at, kind });
                }
            }
        }
        let disk_capacity = if rng.chance(1, 8) { Some(rng.usize_below(len_hint + 1)) } else { None };
        faults.sort_by_key(|f| f.at);
        let cap_switch = if rng.chance(1, 5) { Some((rng.below(calls), *rng.pick(&[None, Some(1usize), Some(3), Some(4096)]))) } else { None };
        SinkPlan { cap, faults, disk_capacity, cap_switch, full_is_zero: rng.chance(1, 2) }
    }
}

#[derive(Clone, Debug, Default)]
pub struct Fired {
    pub short: u64,
    pub interrupted: u64,
    pub hard_sticky: u64,
    pub hard_transient: u64,
    pub zero: u64,
    pub disk_full: u64,
    pub capped_calls: u64,
    /// a definitely non-retryable failure was reported to the writer
    pub fatal: bool,
    /// an error of a kind that may be retried (WouldBlock / TimedOut) was reported
    pub soft_error: bool,
    /// byte offset (in delivered bytes) at which the first injected fault fired
    pub first_fault_offset: Option<usize>,
    pub first_fault_call: Option<u64>,
    pub calls_after_transient: u64,
}

impl Fired {
    pub fn any_error_or_zero(&self) -> bool {
        self.interrupted + self.hard_sticky + self.hard_transient + self.zero + self.disk_full > 0
    }
}

pub struct SimSink<'p> {
    plan: &'p SinkPlan,
    pub delivered: Vec<u8>,
    pub calls: u64,
    pub flushes: u64,
    pub fired: Fired,
    pub log: Digest,
    dead: Option<ErrK>,
    zero_forever: bool,
    interrupted_left: u16,
    transient_seen: bool,
    /// a writer that keeps calling a sink which no longer accepts anything never terminates;
    /// beyond this many calls the sink panics with CALL_BUDGET_MARK (turned into a verdict)
    pub call_budget: u64,
}

pub const CALL_BUDGET_MARK: &str = "PGSIM-C15-SINK-CALL-BUDGET-EXCEEDED";

impl<'p> SimSink<'p> {
    pub fn new(plan: &'p SinkPlan) -> Self {
        SimSink {
            plan,
            delivered: Vec::new(),
            calls: 0,
            flushes: 0,
            fired: Fired::default(),
            log: Digest::default(),
            dead: None,
            zero_forever: false,
            interrupted_left: 0,
            transient_seen: false,
            call_budget: u64::MAX,
        }
    }

    fn note_fault(&mut self, idx: u64) {
        if self.fired.first_fault_offset.is_none() {
            self.fired.first_fault_offset = Some(self.delivered.len());
            self.fired.first_fault_call = Some(idx);
        }
    }

    /// Decide how many of `len` offered bytes are accepted at this call, or which error is reported.
    fn decide(&mut self, len: usize) -> io::Result<usize> {
        let idx = self.calls;
        self.calls += 1;
        if self.calls > self.call_budget {
            panic!("{}", CALL_BUDGET_MARK);
        }
        if self.transient_seen {
            self.fired.calls_after_transient += 1;
        }
        if len == 0 {
            self.log.u64(0xE0 ^ idx);
            return Ok(0);
        }
        if let Some(k) = self.dead {
            self.log.u64(0xD0 ^ idx);
            return Err(io::Error::new(k.kind(), "simulated: sink is dead"));
        }
        if self.zero_forever {
            self.log.u64(0xD1 ^ idx);
            return Ok(0);
        }
        if self.interrupted_left > 0 {
            self.interrupted_left -= 1;
            self.fired.interrupted += 1;
            self.log.u64(0xD2 ^ idx);
            return Err(io::Error::new(ErrorKind::Interrupted, "simulated: EINTR"));
        }
        let mut n = len;
        if let Some(f) = self.plan.faults.iter().find(|f| f.at == idx) {
            match f.kind {
                FaultKind::Short(r) => {
                    if len >= 2 {
                        n = 1 + (r as usize) % (len - 1);
                        self.fired.short += 1;
                        self.note_fault(idx);
                    }
                }
                FaultKind::Interrupted(burst) => {
                    self.interrupted_left = burst.saturating_sub(1);
                    self.fired.interrupted += 1;
                    self.note_fault(idx);
                    self.log.u64(0xD3 ^ idx);
                    return Err(io::Error::new(ErrorKind::Interrupted, "simulated: EINTR"));
                }
                FaultKind::Hard(k, sticky) => {
                    if sticky {
                        self.dead = Some(k);
                        self.fired.hard_sticky += 1;
                    } else {
                        self.fired.hard_transient += 1;
                        self.transient_seen = true;
                    }
                    if k.non_retryable() {
                        self.fired.fatal = true;
                    } else {
                        self.fired.soft_error = true;
                    }
                    self.note_fault(idx);
                    self.log.u64(0xD4 ^ idx);
                    return Err(io::Error::new(k.kind(), "simulated: hard failure"));
                }
                FaultKind::Zero(sticky) => {
                    self.zero_forever = sticky;
                    self.fired.zero += 1;
                    self.note_fault(idx);
                    self.log.u64(0xD5 ^ idx);
                    return Ok(0);
                }
            }
        }
        if let Some(cap) = self.plan.disk_capacity {
            let remaining = cap.saturating_sub(self.delivered.len());
            if remaining == 0 && self.plan.full_is_zero {
                self.fired.zero += 1;
                self.note_fault(idx);
                self.log.u64(0xD7 ^ idx);
                return Ok(0);
            }
            if remaining == 0 {
                self.fired.disk_full += 1;
                self.fired.fatal = true;
                self.note_fault(idx);
                self.log.u64(0xD6 ^ idx);
                return Err(io::Error::new(ErrorKind::StorageFull, "simulated: disk full"));
            }
            n = n.min(remaining);
        }
        let cap_now = match self.plan.cap_switch {
            Some((at, c)) if idx >= at => c,
            _ => self.plan.cap,
        };
        if let Some(k) = cap_now {
            if n > k {
                n = k;
                self.fired.capped_calls += 1;
            }
        }
        self.log.u64(((idx << 20) ^ (len as u64) << 8) ^ n as u64);
        Ok(n)
    }
}

impl Write for SimSink<'_> {
    fn write(&mut self, buf: &[u8]) -> io::Result<usize> {
        let n = self.decide(buf.len())?;
        self.delivered.extend_from_slice(&buf[..n]);
        Ok(n)
    }

    /// Vectored writes see the same sink: the buffers are treated as one contiguous offer.
    fn write_vectored(&mut self, bufs: &[IoSlice<'_>]) -> io::Result<usize> {
        let total: usize = bufs.iter().map(|b| b.len()).sum();
        let n = self.decide(total)?;
        let mut left = n;
        for b in bufs {
            if left == 0 {
                break;
            }
            let take = left.min(b.len());
            self.delivered.extend_from_slice(&b[..take]);
            left -= take;
        }
        Ok(n)
    }

    fn flush(&mut self) -> io::Result<()> {
        // C15 says nothing about flushing; flush never fails and is not a fault point.
        self.flushes += 1;
        Ok(())
    }
}
