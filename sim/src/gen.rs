//! Seeded, swarm-configured generator of ProGuard / R8 mapping files (the workload input of
//! every simulated run). All choices come from the run's `Rng`.

use crate::rng::Rng;

#[derive(Clone, Debug)]
pub struct GenCfg {
    pub max_classes: u64,
    pub max_members: u64,
    /// weights: no range / s:e / s:e..:os / s:e..:os:oe
    pub w_range: [u64; 4],
    pub pct_inline_group: u64,
    pub pct_foreign: u64,
    pub pct_source_file: u64,
    pub pct_field: u64,
    pub pct_noise: u64,
    pub pct_long_name: u64,
    pub pct_non_ascii: u64,
    pub pct_big_line: u64,
    /// 0 = LF, 1 = CRLF, 2 = mixed LF/CRLF/CR
    pub eol_mode: u64,
    /// size of the obfuscated class / method / argument universes: small => many collisions
    pub class_pool: usize,
    pub method_pool: usize,
    pub arg_pool: usize,
    pub headers: bool,
    pub trailing_newline: bool,
    /// percent chance (per member) of a sourceFile header in the middle of a class's members
    pub pct_stray_source_file: u64,
    /// percent chance (per class) of a class with 70..150 distinct obfuscated method names
    pub pct_wide_class: u64,
    /// allow names of ~16 KiB (3-byte length prefix); off for enumerations quadratic in file size
    pub huge_names: bool,
}

impl GenCfg {
    /// Draw a swarm configuration: every knob varies per run.
    pub fn swarm(rng: &mut Rng, max_classes: u64, max_members: u64) -> Self {
        let off = |rng: &mut Rng, p: u64| if rng.chance(1, 4) { 0 } else { rng.range(0, p) };
        GenCfg {
            max_classes: if rng.chance(1, 3) { rng.range(0, max_classes) } else { rng.skewed(max_classes) },
            max_members: if rng.chance(1, 3) { rng.range(0, max_members) } else { rng.skewed(max_members) },
            w_range: [rng.range(0, 4), rng.range(0, 4), rng.range(0, 4), rng.range(1, 4)],
            pct_inline_group: off(rng, 60),
            pct_foreign: off(rng, 50),
            pct_source_file: off(rng, 70),
            pct_field: off(rng, 30),
            pct_noise: off(rng, 20),
            pct_long_name: off(rng, 15),
            pct_non_ascii: off(rng, 25),
            pct_big_line: off(rng, 10),
            eol_mode: rng.below(3),
            class_pool: *rng.pick(&[2usize, 4, 8, 16, 16, 28]),
            method_pool: *rng.pick(&[1usize, 2, 4, 9]),
            arg_pool: *rng.pick(&[1usize, 2, 4, 9]),
            headers: rng.chance(1, 2),
            trailing_newline: rng.chance(3, 4),
            pct_stray_source_file: off(rng, 12),
            pct_wide_class: if rng.chance(1, 12) { 20 } else { 0 },
            huge_names: true,
        }
    }
}

pub const OBF_CLASSES: &[&str] = &[
    "a", "a.a", "b", "a.b", "a$a", "a.a$b", "ab", "a.a.a", "aa", "b.a", "\u{e9}", "a.\u{e9}", "zz", "a$b", "a.a$a",
    "A",
    // a cluster of names that share a UTF-8 lead byte at the same position
    "a.\u{c4}", "a.\u{c5}", "a.\u{c6}", "a.\u{d6}", "a.\u{d8}", "a.\u{dc}", "a.\u{df}",
    // code points whose UTF-8 byte order and UTF-16 code-unit order disagree (supplementary plane vs
    // U+E000..U+FFFF), and a CJK / fullwidth pair
    "a.\u{1d49c}", "a.\u{ff41}", "a.\u{e000}", "a.\u{10000}", "a.\u{4e2d}",
];
pub const ORIG_CLASSES: &[&str] = &[
    "com.example.Foo",
    "com.example.Foo$Bar",
    "com.example.Baz",
    "org.x.Y",
    "Main",
    "com.example.F\u{f6}\u{f6}",
    "com.example.ui.MainFragment$onActivityCreated$4",
    "kotlin.jvm.internal.Intrinsics",
];
pub const OBF_METHODS: &[&str] = &["a", "b", "c", "aa", "<init>", "m", "\u{e9}", "d", "<clinit>"];
pub const ORIG_METHODS: &[&str] = &[
    "run", "onClick", "<init>", "foo", "bar", "invoke", "lambda$new$0", "access$000", "equals",
];
pub const ARGS: &[&str] = &[
    "",
    "int",
    "int, int",
    " int",
    "int,int",
    "java.lang.String",
    "a.a",
    "com.example.Foo,int",
    "boolean",
    "java.lang.Object[]",
    "android.view.View",
];
pub const RET_TYPES: &[&str] = &["void", "int", "java.lang.String", "a.b", "com.example.Foo[]"];
pub const FOREIGN: &[&str] = &["com.example.Other", "kotlin.jvm.internal.Intrinsics", "a.b.C$D", "x.Y"];
pub const FILES: &[&str] = &["Foo.kt", "SourceFile", "R8$$SyntheticClass", "Bar.java", "F\u{f6}\u{f6}.kt"];

/// Largest line number of the representable domain (line numbers are < 2^32 - 1).
pub const MAX_LINE: u64 = (1 << 32) - 2;

fn long_name(rng: &mut Rng, base: &str, huge: bool) -> String {
    // > 127 bytes, so the LEB128 length prefix in the string table needs two bytes; one time in
    // four the total length sits exactly at a length-prefix boundary (1/2 bytes, 2/3 bytes)
    let n = if rng.chance(1, 4) {
        let pick = *rng.pick(&[126usize, 127, 128, 129, 255, 256, 16_383, 16_384, 16_385]);
        (if huge || pick < 1000 { pick } else { 128 }).saturating_sub(base.len())
    } else {
        rng.range(120, 300) as usize
    };
    let mut s = String::with_capacity(n + base.len());
    s.push_str(base);
    for i in 0..n {
        s.push((b'a' + ((i * 7 + base.len()) % 26) as u8) as char);
    }
    s
}

fn line_no(rng: &mut Rng, cfg: &GenCfg) -> u64 {
    if rng.chance(cfg.pct_big_line, 100) {
        *rng.pick(&[65535u64, 65536, 1 << 31, (1 << 32) - 3, (1 << 32) - 2, 100_000])
    } else {
        rng.range(1, 60)
    }
}

fn eol(rng: &mut Rng, cfg: &GenCfg) -> &'static str {
    match cfg.eol_mode {
        0 => "\n",
        1 => "\r\n",
        _ => *rng.pick(&["\n", "\r\n", "\n", "\r", "\n\n"]),
    }
}

const NOISE: &[&[u8]] = &[
    b"this is not a mapping line",
    b"    bad member line",
    b"a -> b",
    b"# just a comment",
    b"    1:void x() -> a",
    b"   3:4:void x() -> a",
    b"\xff\xfe invalid utf8 \x80",
    b"    1:2:void \xc3( -> a",
    b"",
    b"com.example.NoColon -> x.y",
    b"    void noarrow()",
];

/// Generate one mapping file.
pub fn gen_mapping(rng: &mut Rng, cfg: &GenCfg) -> Vec<u8> {
    let mut out: Vec<u8> = Vec::new();
    let push = |out: &mut Vec<u8>, s: &str| out.extend_from_slice(s.as_bytes());
    if cfg.huge_names && rng.chance(1, 40) {
        out.extend_from_slice(b"\xEF\xBB\xBF"); // a UTF-8 byte order mark
    }
    if cfg.huge_names && rng.chance(1, 60) {
        // a very long comment line (> 64 KiB)
        out.push(b'#');
        out.extend(std::iter::repeat(b'x').take(70_000));
        out.push(b'\n');
    }

    if cfg.headers {
        for h in [
            "# compiler: R8",
            "# compiler_version: 2.0.74",
            "# min_api: 15",
            "# {\"id\":\"com.android.tools.r8.mapping\",\"version\":\"2.0\"}",
        ] {
            if rng.chance(2, 3) {
                push(&mut out, h);
                let e = eol(rng, cfg);
                push(&mut out, e);
            }
        }
        if rng.chance(1, 8) {
            // a sourceFile header before any class line
            push(&mut out, "# {\"id\":\"sourceFile\",\"fileName\":\"Early.kt\"}");
            let e = eol(rng, cfg);
            push(&mut out, e);
        }
    }

    let n_classes = cfg.max_classes;
    for ci in 0..n_classes {
        if rng.chance(cfg.pct_noise, 100) {
            out.extend_from_slice(*rng.pick(NOISE));
            let e = eol(rng, cfg);
            push(&mut out, e);
        }
        // class line
        let obf: String = {
            let base = if cfg.class_pool > 16 && rng.chance(1, 2) {
                OBF_CLASSES[16 + rng.usize_below(OBF_CLASSES.len() - 16)]
            } else {
                OBF_CLASSES[rng.usize_below(cfg.class_pool.min(OBF_CLASSES.len()))]
            };
            if cfg.class_pool > 16 {
                base.to_string()
            } else if rng.chance(cfg.pct_long_name, 100) {
                long_name(rng, base, cfg.huge_names)
            } else if cfg.class_pool >= 16 && rng.chance(1, 2) {
                // widen the universe for big files so that not everything collides
                format!("{}.c{}", base, ci)
            } else {
                base.to_string()
            }
        };
        let orig: String = {
            let base = *rng.pick(ORIG_CLASSES);
            if !rng.chance(cfg.pct_non_ascii, 100) && base.contains('\u{f6}') {
                "com.example.Plain".to_string()
            } else if rng.chance(1, 2) {
                format!("{}{}", base, ci)
            } else {
                base.to_string()
            }
        };
        push(&mut out, &orig);
        push(&mut out, " -> ");
        push(&mut out, &obf);
        push(&mut out, ":");
        let e = eol(rng, cfg);
        push(&mut out, e);

        if rng.chance(cfg.pct_source_file, 100) {
            let f = *rng.pick(FILES);
            push(&mut out, &format!("# {{\"id\":\"sourceFile\",\"fileName\":\"{}\"}}", f));
            let e = eol(rng, cfg);
            push(&mut out, e);
        }

        let wide = rng.chance(cfg.pct_wide_class, 100);
        let n_members = if wide { rng.range(70, 150) } else { rng.range(0, cfg.max_members) };
        let mut mi = 0;
        while mi < n_members {
            if rng.chance(cfg.pct_stray_source_file, 100) {
                // a sourceFile header after some members (or a second one for the same class)
                let f = *rng.pick(FILES);
                push(&mut out, &format!("# {{\"id\":\"sourceFile\",\"fileName\":\"{}\"}}", f));
                let e = eol(rng, cfg);
                push(&mut out, e);
            }
            if rng.chance(cfg.pct_noise, 200) {
                out.extend_from_slice(*rng.pick(NOISE));
                let e = eol(rng, cfg);
                push(&mut out, e);
            }
            if rng.chance(cfg.pct_field, 100) {
                push(
                    &mut out,
                    &format!("    {} field{} -> {}", rng.pick(RET_TYPES), mi, rng.pick(OBF_METHODS)),
                );
                let e = eol(rng, cfg);
                push(&mut out, e);
                mi += 1;
                continue;
            }
            let obf_m: String = {
                let base = OBF_METHODS[rng.usize_below(cfg.method_pool.min(OBF_METHODS.len()))];
                if wide {
                    format!("m{}", mi)
                } else if rng.chance(cfg.pct_long_name, 200) {
                    long_name(rng, base, cfg.huge_names)
                } else {
                    base.to_string()
                }
            };
            // an inline group: k consecutive entries sharing the obfuscated range and name
            let group = if rng.chance(cfg.pct_inline_group, 100) { rng.range(2, 4) } else { 1 };
            let s = line_no(rng, cfg);
            let e_line = if rng.chance(1, 3) { s } else { s + rng.range(0, 8) };
            let e_line = if rng.chance(1, 25) { s.saturating_sub(rng.range(1, 3)) } else { e_line }; // inverted
            let e_line = e_line.min(MAX_LINE);
            let tot: u64 = cfg.w_range.iter().sum();
            for gi in 0..group {
                let mut kind = {
                    let mut r = rng.below(tot);
                    let mut k = 0;
                    for (i, w) in cfg.w_range.iter().enumerate() {
                        if r < *w {
                            k = i;
                            break;
                        }
                        r -= *w;
                    }
                    k
                };
                if group > 1 && kind == 0 {
                    kind = 2;
                }
                let orig_m = *rng.pick(ORIG_METHODS);
                let args: String = {
                    let a = ARGS[rng.usize_below(cfg.arg_pool.min(ARGS.len()))];
                    if rng.chance(cfg.pct_long_name, 300) {
                        long_name(rng, "x.", cfg.huge_names)
                    } else {
                        a.to_string()
                    }
                };
                let foreign = rng.chance(cfg.pct_foreign, 100) || (group > 1 && gi + 1 < group && rng.chance(1, 2));
                let mut line = String::from("    ");
                if kind > 0 {
                    let (ls, le) = if rng.chance(1, 40) { (0, 0) } else { (s, e_line) };
                    line.push_str(&format!("{}:{}:", ls, le));
                }
                line.push_str(*rng.pick(RET_TYPES));
                line.push(' ');
                if foreign {
                    line.push_str(*rng.pick(FOREIGN));
                    line.push('.');
                }
                line.push_str(orig_m);
                line.push('(');
                line.push_str(&args);
                line.push(')');
                if kind >= 2 {
                    let os = line_no(rng, cfg);
                    line.push_str(&format!(":{}", os));
                    if kind >= 3 {
                        let oe = if rng.chance(1, 30) {
                            os.saturating_sub(rng.range(1, 6)).max(1) // inverted original range
                        } else if rng.chance(1, 3) {
                            os
                        } else if rng.chance(1, 2) {
                            os + (e_line.saturating_sub(s))
                        } else {
                            os + rng.range(0, 9)
                        }
                        .min(MAX_LINE);
                        line.push_str(&format!(":{}", oe));
                    }
                }
                line.push_str(" -> ");
                line.push_str(&obf_m);
                push(&mut out, &line);
                let e = eol(rng, cfg);
                push(&mut out, e);
                mi += 1;
            }
            // sometimes repeat the last line verbatim (duplicate entries)
            if rng.chance(1, 12) {
                let start = out[..out.len() - 1]
                    .iter()
                    .rposition(|c| *c == b'\n' || *c == b'\r')
                    .map_or(0, |p| p + 1);
                let dup = out[start..].to_vec();
                if dup.starts_with(b"    ") {
                    out.extend_from_slice(&dup);
                    mi += 1;
                }
            }
        }
    }
    if !cfg.trailing_newline {
        while matches!(out.last(), Some(b'\n') | Some(b'\r')) {
            out.pop();
        }
    }
    if rng.chance(1, 50) {
        out.extend_from_slice(&[0u8; 3]); // trailing NUL bytes (a padded file)
    }
    out
}

/// Convenience: swarm config + mapping from one rng.
pub fn gen_case(rng: &mut Rng, max_classes: u64, max_members: u64) -> (GenCfg, Vec<u8>) {
    let cfg = GenCfg::swarm(rng, max_classes, max_members);
    let m = gen_mapping(rng, &cfg);
    (cfg, m)
}

/// A huge mapping: more than 65 536 classes and more than 65 536 members (16-bit limits, large
/// offsets, string section of several MiB). Deterministic from the rng.
pub fn gen_huge(rng: &mut Rng) -> Vec<u8> {
    let n = 66_000 + rng.range(0, 3_000);
    gen_huge_n(rng, n)
}

/// `gen_huge` with a chosen number of classes.
pub fn gen_huge_n(rng: &mut Rng, n_classes: u64) -> Vec<u8> {
    let mut out: Vec<u8> = Vec::with_capacity(8 << 20);
    for c in 0..n_classes {
        out.extend_from_slice(format!("com.example.pkg{}.Type{} -> p{}.c{}:\n", c % 97, c, c % 53, c).as_bytes());
        if c % 11 == 0 {
            out.extend_from_slice(format!("# {{\"id\":\"sourceFile\",\"fileName\":\"Type{}.kt\"}}\n", c).as_bytes());
        }
        let members = rng.range(0, 3);
        for m in 0..members {
            let s = 1 + rng.range(0, 50);
            let e = s + rng.range(0, 5);
            match rng.below(3) {
                // original names are shared by runs of ~400 classes: new strings keep appearing
                // throughout the file and every one of them is repeated many times afterwards
                0 => out.extend_from_slice(format!("    {}:{}:void method{}_{}(int):{}:{} -> {}\n", s, e, c / 400, m, 100 + s, 100 + e, *rng.pick(&["a", "b", "c"])).as_bytes()),
                1 => out.extend_from_slice(format!("    {}:{}:int x.Inl{}.inl{}():{} -> a\n    {}:{}:void outer{}():{} -> a\n", s, s, c % 7, c / 900, 7 + m, s, s, m, 200 + s).as_bytes()),
                _ => out.extend_from_slice(format!("    java.lang.String plain{}_{}(java.lang.Object,com.example.arg.T{}) -> d\n", c / 650, m, c / 300).as_bytes()),
            }
        }
    }
    out
}

/// One obfuscated method with `n` entries that all cover line 1 (a very deep inline chain) and `n`
/// overloads sharing one name and parameter string: a single lookup matches thousands of entries.
pub fn gen_deep(n: usize) -> Vec<u8> {
    let mut out: Vec<u8> = b"com.example.Deep -> d.e:\n".to_vec();
    for k in 0..n {
        out.extend_from_slice(format!("    1:1:void level{}():{} -> x\n", k, k + 1).as_bytes());
    }
    out.extend_from_slice(b"com.example.Over -> o.v:\n");
    for k in 0..n {
        out.extend_from_slice(format!("    void over{}(int) -> y\n", k).as_bytes());
    }
    out
}

/// Like `gen_case`, but without wide classes (for enumerations that are quadratic in file size).
pub fn gen_case_small(rng: &mut Rng, max_classes: u64, max_members: u64) -> (GenCfg, Vec<u8>) {
    let mut cfg = GenCfg::swarm(rng, max_classes, max_members);
    cfg.pct_wide_class = 0;
    cfg.huge_names = false;
    let m = gen_mapping(rng, &cfg);
    (cfg, m)
}

/// Corpus files shipped with the repository (read at run time from /repo/tests/res).
pub fn corpus(include_large: bool) -> Vec<(String, Vec<u8>)> {
    let mut v = Vec::new();
    let dir = std::path::Path::new("/repo/tests/res");
    let mut names: Vec<_> = match std::fs::read_dir(dir) {
        Ok(rd) => rd
            .filter_map(|e| e.ok())
            .map(|e| e.file_name().to_string_lossy().to_string())
            .filter(|n| n.ends_with(".txt"))
            .collect(),
        Err(_) => Vec::new(),
    };
    names.sort();
    for n in names {
        if let Ok(b) = std::fs::read(dir.join(&n)) {
            if b.len() > 600_000 && !include_large {
                continue;
            }
            v.push((n, b));
        }
    }
    v
}
