//! Seeded baton scheduler over real `std::thread`s: exactly one registered thread runs at a
//! time; at every scheduling point the running thread draws the next thread to run from the
//! run's PRNG (uniform, or PCT-style priorities with random change points). One seed is one
//! exactly repeatable interleaving, while thread-locals and Send/Sync semantics stay real.

use crate::rng::{Digest, Rng};
use std::sync::{Condvar, Mutex};

#[derive(Clone, Copy, Debug, PartialEq, Eq)]
pub enum Policy {
    /// uniform random choice among runnable threads at every point
    Uniform,
    /// PCT: run the highest-priority runnable thread; at `d` random step numbers demote it
    Pct { depth: u32 },
    /// never preempt voluntarily (runs each thread to completion, in random order): the baseline
    RunToCompletion,
}

struct State {
    current: Option<usize>,
    alive: Vec<bool>,
    started: usize,
    rng: Rng,
    policy: Policy,
    priorities: Vec<u64>,
    change_points: Vec<u64>,
    steps: u64,
    switches: u64,
    /// how often a waiting thread took the baton because its holder made no progress (see `STALL`)
    stalls: u64,
    /// set by the first stall: no more serialisation in this scenario
    free: bool,
    trace: Digest,
}

/// If the thread holding the baton reaches no scheduling point for this long, it is presumed blocked
/// outside the simulator — typically on a lock inside the library that a *parked* thread holds (a
/// library may legally hold a lock across sink calls or iterator steps). A waiting thread then takes
/// the baton and the baton of this scenario becomes *free-running* for the rest of the scenario (every
/// thread proceeds without waiting), so a scenario pays for at most one stall. This costs the exact
/// serialisation of that scenario but can never turn a correct program into a failing one.
const STALL: std::time::Duration = std::time::Duration::from_millis(500);

pub struct Baton {
    st: Mutex<State>,
    /// one condition variable per thread: a hand-over wakes exactly the chosen thread
    cvs: Vec<Condvar>,
    n: usize,
}

impl Baton {
    pub fn new(n: usize, seed: u64, policy: Policy, expected_steps: u64) -> Baton {
        let mut rng = Rng::new(seed);
        let mut priorities: Vec<u64> = (0..n as u64).map(|i| 1000 + i).collect();
        rng.shuffle(&mut priorities);
        let mut change_points = Vec::new();
        if let Policy::Pct { depth } = policy {
            for _ in 0..depth {
                change_points.push(rng.below(expected_steps.max(1)));
            }
            change_points.sort_unstable();
        }
        Baton {
            st: Mutex::new(State {
                current: None,
                alive: vec![true; n],
                started: 0,
                rng,
                policy,
                priorities,
                change_points,
                steps: 0,
                switches: 0,
                stalls: 0,
                free: false,
                trace: Digest::default(),
            }),
            cvs: (0..n).map(|_| Condvar::new()).collect(),
            n,
        }
    }

    fn pick(st: &mut State, me: Option<usize>) -> Option<usize> {
        let runnable: Vec<usize> = (0..st.alive.len()).filter(|i| st.alive[*i]).collect();
        if runnable.is_empty() {
            return None;
        }
        let next = match st.policy {
            Policy::Uniform => runnable[st.rng.usize_below(runnable.len())],
            Policy::RunToCompletion => match me {
                Some(m) if st.alive[m] => m,
                _ => runnable[st.rng.usize_below(runnable.len())],
            },
            Policy::Pct { .. } => {
                if let Some(m) = me {
                    while st.change_points.first().map_or(false, |c| *c <= st.steps) {
                        st.change_points.remove(0);
                        // demote the running thread below everybody else
                        let min = st.priorities.iter().copied().min().unwrap_or(0);
                        st.priorities[m] = min.saturating_sub(1);
                    }
                }
                *runnable.iter().max_by_key(|i| st.priorities[**i]).unwrap()
            }
        };
        Some(next)
    }

    fn wait_for_turn<'g>(&self, mut st: std::sync::MutexGuard<'g, State>, me: usize) -> std::sync::MutexGuard<'g, State> {
        while st.current != Some(me) && !st.free {
            let (seen_steps, seen_cur, all_started) = (st.steps, st.current, st.started == self.n);
            let (g, to) = self.cvs[me].wait_timeout(st, STALL).unwrap();
            st = g;
            if to.timed_out() && all_started && !st.free && st.current != Some(me) && st.current == seen_cur && st.steps == seen_steps && st.alive[me] {
                st.stalls += 1;
                st.free = true;
                for cv in &self.cvs {
                    cv.notify_one();
                }
            }
        }
        st
    }

    /// Called by thread `me` first thing: blocks until all threads are registered and it is chosen.
    pub fn start(&self, me: usize) {
        let mut st = self.st.lock().unwrap();
        st.started += 1;
        if st.started == self.n {
            let next = Self::pick(&mut st, None);
            st.current = next;
            if let Some(nx) = next {
                self.cvs[nx].notify_one();
            }
        }
        let _st = self.wait_for_turn(st, me);
    }

    /// A scheduling point: the PRNG decides who continues.
    pub fn yield_point(&self, me: usize) {
        let mut st = self.st.lock().unwrap();
        st.steps += 1;
        if st.free {
            return;
        }
        let next = Self::pick(&mut st, Some(me)).unwrap_or(me);
        st.trace.u64(next as u64);
        if next != me {
            st.switches += 1;
            st.current = Some(next);
            self.cvs[next].notify_one();
            let _st = self.wait_for_turn(st, me);
        }
    }

    /// Thread `me` is done; hand the baton on.
    pub fn finish(&self, me: usize) {
        let mut st = self.st.lock().unwrap();
        st.alive[me] = false;
        let next = Self::pick(&mut st, None);
        st.trace.u64(0xF00 + next.map_or(0xFF, |n| n as u64));
        st.current = next;
        if let Some(nx) = next {
            self.cvs[nx].notify_one();
        }
    }

    /// (steps, context switches, digest of the schedule) after all threads finished.
    pub fn summary(&self) -> (u64, u64, u64) {
        let st = self.st.lock().unwrap();
        (st.steps, st.switches, st.trace.finish())
    }

    /// How often the liveness escape fired in this run.
    pub fn stalls(&self) -> u64 {
        self.st.lock().unwrap().stalls
    }
}

/// Finishes the thread's participation even if the body unwinds, so that a panic inside the
/// library does not dead-lock the other threads.
pub struct Participant<'a> {
    pub baton: &'a Baton,
    pub me: usize,
}

impl Drop for Participant<'_> {
    fn drop(&mut self) {
        self.baton.finish(self.me);
    }
}
