//! Shared plumbing: environment, deterministic worker pool, panic capture, evidence / replay
//! files, known-findings, delta-debugging.

use serde_json::{json, Value};
use std::cell::RefCell;
use std::collections::BTreeMap;
use std::panic::{catch_unwind, AssertUnwindSafe};
use std::sync::atomic::{AtomicU64, Ordering};
use std::sync::Mutex;
use std::time::Instant;

pub const DEFAULT_SEED: u64 = 20261001;
/// Root of the verification tree: the driver exports PGSIM_VERIF_DIR (its own directory), so a
/// snapshot started with `vp run` writes evidence and replays into the snapshot, not into /verif.
pub fn verif_dir() -> String {
    std::env::var("PGSIM_VERIF_DIR").unwrap_or_else(|_| "/verif".to_string())
}

#[derive(Clone, Debug)]
pub struct Env {
    pub seed: u64,
    pub thorough: bool,
    pub workers: usize,
    /// multiplies the number of runs (used by sweeps started with `vp run`)
    pub scale: f64,
}

impl Env {
    pub fn from_env_and_args(args: &[String]) -> Env {
        let mut seed = std::env::var("VERIF_SEED").ok().and_then(|s| s.trim().parse::<u64>().ok()).unwrap_or(DEFAULT_SEED);
        let mut thorough = std::env::var("VERIF_TIER").map(|t| t == "thorough").unwrap_or(false);
        let mut workers = std::env::var("VERIF_WORKERS")
            .ok()
            .and_then(|s| s.parse().ok())
            .unwrap_or_else(|| std::thread::available_parallelism().map(|n| n.get()).unwrap_or(4).min(16));
        let mut scale = std::env::var("VERIF_SCALE").ok().and_then(|s| s.parse().ok()).unwrap_or(1.0);
        let mut i = 0;
        while i < args.len() {
            match args[i].as_str() {
                "--seed" => {
                    seed = args[i + 1].parse().expect("--seed N");
                    i += 1;
                }
                "--tier" => {
                    thorough = args[i + 1] == "thorough";
                    i += 1;
                }
                "--workers" => {
                    workers = args[i + 1].parse().expect("--workers N");
                    i += 1;
                }
                "--scale" => {
                    scale = args[i + 1].parse().expect("--scale F");
                    i += 1;
                }
                _ => {}
            }
            i += 1;
        }
        Env { seed, thorough, workers: workers.max(1), scale }
    }
    pub fn tier(&self) -> &'static str {
        if self.thorough {
            "thorough"
        } else {
            "quick"
        }
    }
    pub fn scaled(&self, n: u64) -> u64 {
        ((n as f64) * self.scale).max(1.0) as u64
    }
}

pub fn arg_value(args: &[String], name: &str) -> Option<String> {
    args.iter().position(|a| a == name).and_then(|i| args.get(i + 1)).cloned()
}

// ---------------------------------------------------------------------------------------------
// panic capture

thread_local! {
    static LAST_PANIC: RefCell<Option<String>> = const { RefCell::new(None) };
}

pub static LAST_PANIC_GLOBAL: Mutex<Option<String>> = Mutex::new(None);

/// Install a hook that records the panic message + location per thread instead of printing it.
pub fn install_quiet_panic_hook() {
    std::panic::set_hook(Box::new(|info| {
        let msg = if let Some(s) = info.payload().downcast_ref::<&str>() {
            s.to_string()
        } else if let Some(s) = info.payload().downcast_ref::<String>() {
            s.clone()
        } else {
            "<non-string panic payload>".to_string()
        };
        let loc = info.location().map(|l| format!("{}:{}:{}", l.file(), l.line(), l.column())).unwrap_or_default();
        let text = format!("{} @ {}", msg, loc);
        if let Ok(mut g) = LAST_PANIC_GLOBAL.lock() {
            let prev = g.take().unwrap_or_default();
            let keep: String = prev.chars().rev().take(600).collect::<String>().chars().rev().collect();
            *g = Some(format!("{} || {}", keep, text));
        }
        LAST_PANIC.with(|p| *p.borrow_mut() = Some(text));
    }));
}

/// Run `f`, turning a panic into `Err(message @ location)`.
pub fn guarded<R>(f: impl FnOnce() -> R) -> Result<R, String> {
    match catch_unwind(AssertUnwindSafe(f)) {
        Ok(r) => Ok(r),
        Err(_) => Err(LAST_PANIC.with(|p| p.borrow_mut().take()).unwrap_or_else(|| "panic".into())),
    }
}

/// Strip the volatile parts of a panic string so that it can serve as a violation class:
/// keeps `file:line` but drops column and the concrete numbers inside the message.
pub fn panic_class(p: &str) -> String {
    let (msg, loc) = p.rsplit_once(" @ ").unwrap_or((p, ""));
    let loc = {
        let mut it = loc.rsplitn(2, ':');
        let _col = it.next();
        it.next().unwrap_or(loc).to_string()
    };
    let msg: String = msg
        .chars()
        .map(|c| if c.is_ascii_digit() { '#' } else { c })
        .collect::<String>()
        .split('#')
        .filter(|s| !s.is_empty())
        .collect::<Vec<_>>()
        .join("#");
    let msg: String = msg.chars().take(80).collect();
    format!("{} @ {}", msg, loc)
}

// ---------------------------------------------------------------------------------------------
// statistics and violations

/// Commutative statistics, so that merging per-worker results is independent of the worker count.
#[derive(Clone, Debug, Default)]
pub struct Stats {
    pub counters: BTreeMap<String, u64>,
    /// sum (wrapping) of per-run event-log digests: equal for equal multisets of runs
    pub digest_sum: u64,
    pub runs: u64,
    /// distinct digests of "interesting" cases, bounded
    pub distinct: std::collections::BTreeSet<u64>,
    pub samples: Vec<Value>,
    /// per-key counts (key = digest of a case family, e.g. one mapping); merged by max so that
    /// duplicates of the same family are counted once
    pub keyed: BTreeMap<u64, u64>,
}

impl Stats {
    pub fn keyed_max(&mut self, k: u64, v: u64) {
        let e = self.keyed.entry(k).or_insert(0);
        if v > *e {
            *e = v;
        }
    }
    pub fn keyed_sum(&self) -> u64 {
        self.keyed.values().sum()
    }
    pub fn inc(&mut self, k: &str) {
        self.add(k, 1);
    }
    pub fn add(&mut self, k: &str, n: u64) {
        if n == 0 {
            return;
        }
        match self.counters.get_mut(k) {
            Some(v) => *v += n,
            None => {
                self.counters.insert(k.to_string(), n);
            }
        }
    }
    pub fn get(&self, k: &str) -> u64 {
        self.counters.get(k).copied().unwrap_or(0)
    }
    pub fn note_distinct(&mut self, d: u64) {
        if self.distinct.len() < 4_000_000 {
            self.distinct.insert(d);
        }
    }
    pub fn run_done(&mut self, digest: u64) {
        self.runs += 1;
        self.digest_sum = self.digest_sum.wrapping_add(digest);
    }
    pub fn merge(&mut self, o: Stats) {
        for (k, v) in o.counters {
            self.add(&k, v);
        }
        self.digest_sum = self.digest_sum.wrapping_add(o.digest_sum);
        self.runs += o.runs;
        for d in o.distinct {
            self.note_distinct(d);
        }
        self.samples.extend(o.samples);
        for (k, v) in o.keyed {
            self.keyed_max(k, v);
        }
    }
}

#[derive(Clone, Debug)]
pub struct Violation {
    pub property: String,
    pub run: u64,
    /// short class string: minimisation keeps the class fixed
    pub class: String,
    pub message: String,
    /// explicit, self-contained case (mapping bytes, fault plan, query, ...)
    pub case: Value,
}

/// Run `n` indexed runs on `workers` threads. Each run gets its index; results are folded into
/// per-worker `Stats` and merged commutatively; violations are sorted by run index.
pub fn run_indexed<F>(n: u64, workers: usize, chunk: u64, f: F) -> (Stats, Vec<Violation>)
where
    F: Fn(u64, &mut Stats, &mut Vec<Violation>) + Sync,
{
    let next = AtomicU64::new(0);
    let merged: Mutex<(Stats, Vec<Violation>)> = Mutex::new((Stats::default(), Vec::new()));
    std::thread::scope(|s| {
        for _ in 0..workers {
            s.spawn(|| {
                let mut st = Stats::default();
                let mut vs = Vec::new();
                loop {
                    let start = next.fetch_add(chunk, Ordering::Relaxed);
                    if start >= n {
                        break;
                    }
                    for i in start..(start + chunk).min(n) {
                        f(i, &mut st, &mut vs);
                    }
                    if vs.len() > 64 {
                        // enough to report; stop early to keep the run bounded
                        next.store(n, Ordering::Relaxed);
                    }
                }
                let mut g = merged.lock().unwrap();
                g.0.merge(st);
                g.1.extend(vs);
            });
        }
    });
    let (mut st, mut vs) = merged.into_inner().unwrap();
    vs.sort_by(|a, b| (a.run, &a.class).cmp(&(b.run, &b.class)));
    // samples: keep deterministic order (by their serialisation) and bound
    st.samples.sort_by_key(|v| v.to_string());
    st.samples.dedup();
    (st, vs)
}

// ---------------------------------------------------------------------------------------------
// known findings

#[derive(Clone, Debug)]
pub struct Known {
    pub property: String,
    pub key: String,
    pub text: String,
}

/// Lines of /verif/known_findings.txt:
///   `finding: property=<id> key=<violation class substring> <description>`
///   `fixed: property=<id> <commit> <what failed>`        (suppresses nothing)
pub fn load_known() -> Vec<Known> {
    let mut v = Vec::new();
    if let Ok(s) = std::fs::read_to_string(format!("{}/known_findings.txt", verif_dir())) {
        for line in s.lines() {
            let line = line.trim();
            if let Some(rest) = line.strip_prefix("finding:") {
                let mut property = String::new();
                let mut key = String::new();
                for tok in rest.split_whitespace() {
                    if let Some(p) = tok.strip_prefix("property=") {
                        property = p.to_string();
                    } else if let Some(k) = tok.strip_prefix("key=") {
                        key = k.replace("%20", " ");
                    }
                }
                if !property.is_empty() && !key.is_empty() {
                    v.push(Known { property, key, text: rest.trim().to_string() });
                }
            }
        }
    }
    v
}

// ---------------------------------------------------------------------------------------------
// evidence + replay files

pub struct Report {
    pub property: String,
    pub level: &'static str,
    pub env: Env,
    pub started: Instant,
    pub rule: String,
    pub exhaustive: bool,
    pub assumptions: Vec<String>,
    pub real: Vec<String>,
    pub stubs: Vec<String>,
    pub extra: BTreeMap<String, Value>,
    /// counters this engine expects to be non-zero in every run (fault kinds fired, rare-branch probes)
    pub expected_probes: Vec<&'static str>,
}

impl Report {
    pub fn new(property: &str, level: &'static str, env: &Env) -> Self {
        Report {
            property: property.to_string(),
            level,
            env: env.clone(),
            started: Instant::now(),
            rule: String::new(),
            exhaustive: false,
            assumptions: Vec::new(),
            real: vec![
                "proguard crate built from /repo working tree (all of it)".into(),
                "watto, leb128, thiserror, uuid, std collections".into(),
            ],
            stubs: Vec::new(),
            extra: BTreeMap::new(),
            expected_probes: Vec::new(),
        }
    }

    /// Write /verif/evidence/<id>.json (or a part file when `part` is given).
    pub fn write(&self, st: &Stats, evaluations: u64, distinct_nontrivial: u64, violations: usize, part: Option<&str>) {
        let wall = self.started.elapsed().as_secs_f64();
        let mut samples = st.samples.clone();
        samples.truncate(12);
        if samples.is_empty() {
            samples.push(json!({"note": "no sample recorded"}));
        }
        let mut coverage = json!({
            "evaluations": evaluations,
            "distinct_nontrivial": distinct_nontrivial,
            "rule": self.rule,
            "samples": samples,
            "exhaustive": self.exhaustive,
            "simulated_runs": st.runs,
            "runs_per_hour": if wall > 0.0 { (st.runs as f64 / wall * 3600.0) as u64 } else { 0 },
            "simulated_time_s": 0,
            "simulated_time_note": "the library has no clock, timer, sleep or deadline; there is no simulated time to cover",
            "counters": st.counters,
            "event_log_digest_sum": format!("{:016x}", st.digest_sum),
            "workers": self.env.workers,
            "components_real": self.real,
            "components_stubbed": self.stubs,
        });
        for (k, v) in &self.extra {
            coverage[k] = v.clone();
        }
        let never: Vec<&str> = self.expected_probes.iter().copied().filter(|p| st.get(p) == 0).collect();
        coverage["probes_expected"] = json!(self.expected_probes);
        coverage["probes_never_hit"] = json!(never);
        let ev = json!({
            "property_id": self.property,
            "tier": self.env.tier(),
            "seed": self.env.seed,
            "level": self.level,
            "coverage": coverage,
            "assumptions": self.assumptions,
            "wall_s": (wall * 1000.0).round() / 1000.0,
            "violations": violations,
        });
        let dir = format!("{}/evidence", verif_dir());
        let _ = std::fs::create_dir_all(&dir);
        let path = match part {
            None => format!("{}/{}.json", dir, self.property),
            Some(p) => {
                let _ = std::fs::create_dir_all(format!("{}/parts", dir));
                format!("{}/parts/{}.{}.json", dir, self.property, p)
            }
        };
        std::fs::write(&path, serde_json::to_string_pretty(&ev).unwrap() + "\n").expect("write evidence");
    }
}

pub fn write_replay(v: &Violation, seed: u64, engine: &str) -> String {
    let dir = format!("{}/replays", verif_dir());
    let _ = std::fs::create_dir_all(&dir);
    let path = format!("{}/{}-{}-{}-{}.json", dir, v.property, engine, seed, v.run);
    let doc = json!({
        "property": v.property,
        "engine": engine,
        "seed": seed,
        "run": v.run,
        "class": v.class,
        "message": v.message,
        "case": v.case,
    });
    std::fs::write(&path, serde_json::to_string_pretty(&doc).unwrap() + "\n").expect("write replay");
    path
}

/// Final reporting shared by all engines: known findings are announced and exit 0, any other
/// violation prints the VIOLATION line and exits 1.
pub fn conclude(property: &str, engine: &str, seed: u64, violations: &[Violation]) -> i32 {
    let known = load_known();
    let mut announced: Vec<String> = Vec::new();
    let mut unknown: Vec<&Violation> = Vec::new();
    for v in violations {
        if let Some(k) = known.iter().find(|k| k.property == property && v.class.contains(&k.key)) {
            if !announced.contains(&k.text) {
                println!("KNOWN-FINDING: {}", k.text);
                announced.push(k.text.clone());
            }
        } else {
            unknown.push(v);
        }
    }
    if let Some(v) = unknown.first() {
        let path = write_replay(v, seed, engine);
        println!("violation class: {}", v.class);
        println!("violation: {}", v.message);
        println!("VIOLATION property={} replay={}", property, path);
        1
    } else {
        println!("OK property={} engine={} violations=0", property, engine);
        0
    }
}

// ---------------------------------------------------------------------------------------------
// delta debugging

static MINIMISE_DEADLINE_MS: AtomicU64 = AtomicU64::new(u64::MAX);
static PROCESS_START: std::sync::OnceLock<Instant> = std::sync::OnceLock::new();

fn now_ms() -> u64 {
    PROCESS_START.get_or_init(Instant::now).elapsed().as_millis() as u64
}

/// Minimisation is bounded in wall-clock time as well as in evaluations: after `secs` seconds every
/// `ddmin` returns the best candidate found so far (the unminimised case is still a valid replay).
pub fn start_minimise_clock(secs: u64) {
    MINIMISE_DEADLINE_MS.store(now_ms() + secs * 1000, Ordering::Relaxed);
}

pub fn minimise_time_left() -> bool {
    now_ms() < MINIMISE_DEADLINE_MS.load(Ordering::Relaxed)
}

/// ddmin: smallest sub-sequence of `items` (order kept) for which `fails` still holds.
/// `budget` bounds the number of predicate evaluations.
pub fn ddmin<T: Clone>(items: &[T], budget: &mut usize, fails: &mut dyn FnMut(&[T]) -> bool) -> Vec<T> {
    let mut cur: Vec<T> = items.to_vec();
    let mut n = 2usize;
    while cur.len() >= 2 && *budget > 0 && minimise_time_left() {
        let chunk = (cur.len() + n - 1) / n;
        let mut reduced = false;
        let mut start = 0;
        while start < cur.len() && *budget > 0 && minimise_time_left() {
            let end = (start + chunk).min(cur.len());
            // try the complement of [start, end)
            let mut cand: Vec<T> = Vec::with_capacity(cur.len() - (end - start));
            cand.extend_from_slice(&cur[..start]);
            cand.extend_from_slice(&cur[end..]);
            *budget -= 1;
            if fails(&cand) {
                cur = cand;
                n = n.saturating_sub(1).max(2);
                reduced = true;
                break;
            }
            start = end;
        }
        if !reduced {
            if n >= cur.len() {
                break;
            }
            n = (n * 2).min(cur.len());
        }
    }
    if cur.len() == 1 && *budget > 0 {
        *budget -= 1;
        if fails(&[]) {
            cur.clear();
        }
    }
    cur
}

/// Split a mapping file into lines (terminators kept with their line).
pub fn split_lines(bytes: &[u8]) -> Vec<Vec<u8>> {
    let mut v = Vec::new();
    let mut cur = Vec::new();
    let mut i = 0;
    while i < bytes.len() {
        let b = bytes[i];
        cur.push(b);
        if b == b'\n' || (b == b'\r' && bytes.get(i + 1) != Some(&b'\n')) {
            v.push(std::mem::take(&mut cur));
        }
        i += 1;
    }
    if !cur.is_empty() {
        v.push(cur);
    }
    v
}

pub fn join_lines(lines: &[Vec<u8>]) -> Vec<u8> {
    lines.iter().flat_map(|l| l.iter().copied()).collect()
}

pub fn bytes_to_json(b: &[u8]) -> Value {
    match std::str::from_utf8(b) {
        Ok(s) if b.len() <= 4096 => json!({"hex": hex::encode(b), "text": s}),
        _ => json!({"hex": hex::encode(b)}),
    }
}

pub fn bytes_from_json(v: &Value) -> Option<Vec<u8>> {
    hex::decode(v.get("hex")?.as_str()?).ok()
}

// ---------------------------------------------------------------------------------------------
// crash capture: SIGSEGV / SIGBUS / SIGILL / SIGABRT inside the library (possible once `unsafe` or
// unbounded recursion is involved) must become a verdict with a replay, not a dead harness.

pub static CRASH_CTX: [[AtomicU64; 2]; 64] = {
    #[allow(clippy::declare_interior_mutable_const)]
    const Z: [AtomicU64; 2] = [AtomicU64::new(u64::MAX), AtomicU64::new(u64::MAX)];
    [Z; 64]
};
static NEXT_CRASH_SLOT: AtomicU64 = AtomicU64::new(0);
thread_local! {
    static CRASH_SLOT: std::cell::Cell<usize> = const { std::cell::Cell::new(usize::MAX) };
}

/// Record what this thread is about to execute (run index, case index inside the run).
#[inline]
pub fn crash_mark(run: u64, case: u64) {
    let slot = CRASH_SLOT.with(|s| {
        if s.get() == usize::MAX {
            s.set(NEXT_CRASH_SLOT.fetch_add(1, Ordering::Relaxed) as usize % 64);
        }
        s.get()
    });
    CRASH_CTX[slot][0].store(run, Ordering::Relaxed);
    CRASH_CTX[slot][1].store(case, Ordering::Relaxed);
}

fn put_num(buf: &mut [u8; 160], pos: &mut usize, mut v: u64) {
    let mut tmp = [0u8; 20];
    let mut n = 0;
    if v == 0 {
        tmp[0] = b'0';
        n = 1;
    }
    while v > 0 {
        tmp[n] = b'0' + (v % 10) as u8;
        v /= 10;
        n += 1;
    }
    while n > 0 && *pos < buf.len() {
        n -= 1;
        buf[*pos] = tmp[n];
        *pos += 1;
    }
}

fn put_str(buf: &mut [u8; 160], pos: &mut usize, s: &[u8]) {
    for b in s {
        if *pos < buf.len() {
            buf[*pos] = *b;
            *pos += 1;
        }
    }
}

extern "C" fn crash_handler(sig: libc::c_int) {
    // async-signal-safe only: no allocation, no locks; format into a stack buffer and write(2)
    let slot = CRASH_SLOT.with(|s| s.get());
    let (run, case) = if slot < 64 { (CRASH_CTX[slot][0].load(Ordering::Relaxed), CRASH_CTX[slot][1].load(Ordering::Relaxed)) } else { (u64::MAX, u64::MAX) };
    let mut buf = [0u8; 160];
    let mut pos = 0;
    put_str(&mut buf, &mut pos, b"\nPGSIM-CRASH signal=");
    put_num(&mut buf, &mut pos, sig as u64);
    put_str(&mut buf, &mut pos, b" run=");
    put_num(&mut buf, &mut pos, run);
    put_str(&mut buf, &mut pos, b" case=");
    put_num(&mut buf, &mut pos, case);
    put_str(&mut buf, &mut pos, b"\n");
    // SAFETY: write(2) and _exit(2) are async-signal-safe
    unsafe {
        libc::write(1, buf.as_ptr() as *const libc::c_void, pos);
        libc::_exit(3);
    }
}

/// Exit code 3 + a `PGSIM-CRASH signal=N run=R case=C` line = the process died inside a library call.
pub fn install_crash_handler() {
    // SAFETY: installing plain signal handlers; SA_ONSTACK uses the alternate stacks std sets up
    unsafe {
        let mut sa: libc::sigaction = std::mem::zeroed();
        sa.sa_sigaction = crash_handler as usize;
        sa.sa_flags = libc::SA_ONSTACK;
        libc::sigemptyset(&mut sa.sa_mask);
        for sig in [libc::SIGSEGV, libc::SIGBUS, libc::SIGILL, libc::SIGABRT, libc::SIGFPE] {
            libc::sigaction(sig, &sa, std::ptr::null_mut());
        }
    }
}
