//! C11 — torn, foreign or wrong-version cache files are rejected, never half-read.
//! Seam: the durable file image between writer and reader (`SimDisk`): a crash keeps an arbitrary
//! prefix; a foreign producer / bit rot changes header fields.

use crate::api::{cur, AlignedBuf};
use crate::common::*;
use crate::gen;
use crate::layout::{self, Header, Layout};
use crate::rng::{digest_bytes, run_seed, Digest, Rng};
use crate::universe::{universe, Query, UniCfg};
use serde_json::{json, Value};

/// One operation of the simulated disk on a complete, valid file image.
#[derive(Clone, Debug, PartialEq)]
pub enum DiskOp {
    /// crash during writing: only the first `len` bytes are durable
    Crash { len: usize },
    /// a 32-bit header field (byte offset 0,4,..,20) holds `value`
    HeaderSet { off: usize, value: u32 },
    /// the file comes from a machine of the other endianness: every 32-bit word of the first
    /// `words` words is byte-swapped (6 = the header, usize::MAX = the whole file)
    SwapWords { words: usize },
    /// a foreign file of the same length: 0 = the mapping text itself, 1 = seeded random bytes
    Foreign { kind: u8, seed: u64 },
}

impl DiskOp {
    pub fn to_json(&self) -> Value {
        match self {
            DiskOp::Crash { len } => json!({"op": "crash", "durable_len": len}),
            DiskOp::HeaderSet { off, value } => json!({"op": "header_set", "off": off, "value": value}),
            DiskOp::SwapWords { words } => json!({"op": "swap_words", "words": if *words == usize::MAX { -1i64 } else { *words as i64 }}),
            DiskOp::Foreign { kind, seed } => json!({"op": "foreign", "kind": kind, "seed": seed.to_string()}),
        }
    }
    pub fn from_json(v: &Value) -> Option<DiskOp> {
        match v.get("op")?.as_str()? {
            "crash" => Some(DiskOp::Crash { len: v.get("durable_len")?.as_u64()? as usize }),
            "header_set" => Some(DiskOp::HeaderSet { off: v.get("off")?.as_u64()? as usize, value: v.get("value")?.as_u64()? as u32 }),
            "swap_words" => Some(DiskOp::SwapWords { words: { let w = v.get("words")?.as_i64()?; if w < 0 { usize::MAX } else { w as usize } } }),
            "foreign" => Some(DiskOp::Foreign { kind: v.get("kind")?.as_u64()? as u8, seed: v.get("seed")?.as_str()?.parse().ok()? }),
            _ => None,
        }
    }
}

/// Apply the ops to a fresh copy of the file; returns the image the next "process" loads.
pub fn apply_ops_with(mapping: &[u8], file: &[u8], ops: &[DiskOp]) -> AlignedBuf {
    let mut img = file.to_vec();
    for op in ops {
        match op {
            DiskOp::SwapWords { words } => {
                let n = (img.len() / 4).min(*words);
                for w in 0..n {
                    img[w * 4..w * 4 + 4].reverse();
                }
            }
            DiskOp::Foreign { kind, seed } => {
                let len = img.len();
                if *kind == 0 && !mapping.is_empty() {
                    img = mapping.iter().cycle().take(len.max(24)).copied().collect();
                } else if *kind == 2 {
                    img = vec![0u8; len.max(24)];
                } else if *kind == 3 {
                    img = vec![0xFFu8; len.max(24)];
                } else {
                    let mut r = Rng::new(*seed);
                    img = (0..len.max(24)).map(|_| r.next_u64() as u8).collect();
                }
            }
            DiskOp::Crash { len } => img.truncate(*len),
            DiskOp::HeaderSet { off, value } => {
                if img.len() >= off + 4 {
                    layout::wr32(&mut img, *off, *value);
                }
            }
        }
    }
    AlignedBuf::new(&img)
}

pub fn apply_ops(file: &[u8], ops: &[DiskOp]) -> AlignedBuf {
    apply_ops_with(&[], file, ops)
}

const UNI: UniCfg = UniCfg { lines_full: true, cap: 60_000, compound: true };

fn answers_on(buf: &[u8], queries: &[Query]) -> Result<Vec<String>, String> {
    guarded(|| {
        let c = cur::ProguardCache::parse(buf).map_err(|e| format!("parse failed: {:?}", e.kind()));
        match c {
            Ok(c) => queries.iter().map(|q| cur::answer_cache(&c, q)).collect::<Vec<_>>(),
            Err(e) => vec![e],
        }
    })
}

/// What the statement demands for the image produced by `ops` from the valid `file`.
/// Returns `Some((class, message))` on a violation.
pub fn judge_ops(mapping: &[u8], file: &[u8], ops: &[DiskOp], st: Option<&mut Stats>) -> Option<(String, String)> {
    let full_header = Header::read(file)?;
    let img = apply_ops_with(mapping, file, ops);
    let buf = img.as_slice();
    let mut dummy = Stats::default();
    let st = st.unwrap_or(&mut dummy);
    st.inc("parse_calls");

    // Expected rejection kinds, clause by clause. Each later clause presupposes the earlier ones: a
    // header that cannot be read comes first; if the magic is foreign or byte-swapped nothing else in
    // the header means anything; if the version differs the layout (and therefore the counts) is
    // unknown; only then "shorter than declared" is well defined.
    let mut allowed: Vec<&'static str> = Vec::new();
    let mut foreign = false; // magic / version clause applies
    let mut short = false; // "shorter than declared" clause applies (needs layout knowledge)
    match Header::read(buf) {
        None => {
            short = true;
            allowed.push("InvalidHeader");
        }
        Some(h) => {
            if h.magic == full_header.magic.swap_bytes() {
                foreign = true;
                allowed.push("WrongEndianness");
            } else if h.magic != full_header.magic {
                foreign = true;
                allowed.push("WrongFormat");
            } else if h.version != full_header.version {
                foreign = true;
                allowed.push("WrongVersion");
            } else if full_header.version == 1 {
                let kinds = Layout::of(&h).short_kinds(buf.len() as u128);
                if !kinds.is_empty() {
                    short = true;
                    allowed.extend(kinds);
                }
            } else {
                st.inc("layout_clause_skipped");
            }
        }
    }
    let pure_prefix = ops.len() == 1 && matches!(ops[0], DiskOp::Crash { len } if len < file.len());

    match guarded(|| cur::parse_kind(buf)) {
        Err(p) => Some((format!("parse-panic {}", panic_class(&p)), format!("parse panicked on the damaged image: {}", p))),
        Ok(Err(kind)) => {
            st.inc(&format!("rejected.{}", kind));
            if (foreign || short) && !allowed.contains(&kind) {
                // only the variant is compared, never the payload
                return Some((
                    format!("wrong-error-kind expected={} got={}", allowed.join("|"), kind),
                    format!("image of {} bytes rejected with {}, the statement demands {}", buf.len(), kind, allowed.join(" or ")),
                ));
            }
            None
        }
        Ok(Ok(())) => {
            st.inc("accepted");
            if foreign || (short && !pure_prefix) {
                return Some((
                    format!("accepted-but-must-reject expected={}", allowed.join("|")),
                    format!("image of {} bytes was accepted, the statement demands rejection with {}", buf.len(), allowed.join(" or ")),
                ));
            }
            if !pure_prefix {
                return None; // e.g. a count edited downwards: nothing is demanded by C11
            }
            // escape clause of the statement: an accepted strict prefix must answer every query
            // exactly like the full file (complete universe; this path is cold on a correct tree)
            let mut rng = Rng::new(digest_bytes(mapping));
            let queries = universe(mapping, &mut rng, &UNI);
            let full = AlignedBuf::new(file);
            st.inc("accepted_prefix_compared");
            match (answers_on(full.as_slice(), &queries), answers_on(buf, &queries)) {
                (Ok(a), Ok(b)) => {
                    if let Some(i) = a.iter().zip(b.iter()).position(|(x, y)| x != y) {
                        return Some((
                            "prefix-accepted-answers-differ".into(),
                            format!(
                                "prefix of {} / {} bytes was accepted and answers {} with {:?}, the full file with {:?}",
                                buf.len(),
                                file.len(),
                                queries[i].describe(),
                                b[i],
                                a[i]
                            ),
                        ));
                    }
                    st.inc("accepted_prefix_equivalent");
                    None
                }
                (_, Err(p)) => Some((
                    format!("prefix-accepted-query-panic {}", panic_class(&p)),
                    format!("query on an accepted prefix panicked: {}", p),
                )),
                (Err(_), _) => None, // the full file itself misbehaves: not a C11 verdict
            }
        }
    }
}

pub fn header_edits(h: &Header) -> Vec<DiskOp> {
    let mut v = Vec::new();
    // magic: byte-swapped, and four foreign values
    v.push(DiskOp::HeaderSet { off: 0, value: h.magic.swap_bytes() });
    for m in [0u32, h.magic.wrapping_add(1), u32::from_le_bytes(*b"PRGD"), u32::from_le_bytes(*b"SYMC"), 0xFFFF_FFFF] {
        v.push(DiskOp::HeaderSet { off: 0, value: m });
    }
    // version
    for ver in [0u32, h.version.wrapping_sub(1), h.version.wrapping_add(1), 1 << 31, u32::MAX, h.version.swap_bytes(), 0x0100_0000] {
        if ver != h.version {
            v.push(DiskOp::HeaderSet { off: 4, value: ver });
        }
    }
    // bit rot: every single-bit flip of the magic and of the version word, and the version with
    // only its upper half changed
    for bit in 0..32 {
        v.push(DiskOp::HeaderSet { off: 0, value: h.magic ^ (1 << bit) });
        v.push(DiskOp::HeaderSet { off: 4, value: h.version ^ (1 << bit) });
    }
    for ver in [h.version.wrapping_add(0x1_0000), h.version | 0xFFFF_0000, h.version.wrapping_add(0x100), h.version.rotate_left(16)] {
        if ver != h.version {
            v.push(DiskOp::HeaderSet { off: 4, value: ver });
        }
    }
    // a file from a machine of the other endianness (whole header, whole file), and foreign files
    v.push(DiskOp::SwapWords { words: 6 });
    v.push(DiskOp::SwapWords { words: usize::MAX });
    v.push(DiskOp::Foreign { kind: 2, seed: 0 }); // a preallocated, never written file: all zero
    v.push(DiskOp::Foreign { kind: 3, seed: 0 }); // erased flash: all 0xFF
    v.push(DiskOp::Foreign { kind: 0, seed: 0 });
    v.push(DiskOp::Foreign { kind: 1, seed: h.string_bytes as u64 ^ 0x5eed });
    // the four counts
    for (off, n) in [(8usize, h.num_classes), (12, h.num_members), (16, h.num_members_by_params), (20, h.string_bytes)] {
        // (incl. the bands where count x entry size comes close to 2^32: 28-byte classes, 36-byte members)
        let per = if off == 8 { 28u64 } else if off == 20 { 1 } else { 36 };
        let band = ((1u64 << 32) / per) as u32;
        for val in [
            0u32,
            n.wrapping_sub(1),
            n.wrapping_add(1),
            n.wrapping_add(2),
            n.wrapping_add(1 << 16),
            1 << 24,
            1 << 31,
            u32::MAX - 1,
            u32::MAX,
            band.wrapping_sub(2),
            band.wrapping_sub(1),
            band,
            band.wrapping_add(1),
            band.wrapping_add(2),
            (((1u64 << 32) - 24) / per) as u32,
            (((1u64 << 32) - 64) / per) as u32,
        ] {
            if val != n {
                v.push(DiskOp::HeaderSet { off, value: val });
            }
        }
    }
    v.dedup();
    v
}

fn case_json(mapping: &[u8], file: &[u8], ops: &[DiskOp]) -> Value {
    json!({
        "mapping": bytes_to_json(mapping),
        "file_len": file.len(),
        "ops": ops.iter().map(|o| o.to_json()).collect::<Vec<_>>(),
    })
}

/// All crash points and all single header edits for one file.
fn enumerate_file(run: u64, mapping: &[u8], combos: u64, rng: &mut Rng, st: &mut Stats, vs: &mut Vec<Violation>, sample: bool) {
    let file = match guarded(|| cur::write_cache(mapping)) {
        Ok(f) => f,
        Err(_) => {
            st.inc("control.write_panicked");
            return;
        }
    };
    let full = AlignedBuf::new(&file);
    if !matches!(guarded(|| cur::parse_kind(full.as_slice())), Ok(Ok(()))) {
        st.inc("control.full_file_not_accepted");
        return;
    }
    let Some(h) = Header::read(&file) else {
        st.inc("control.no_header");
        return;
    };
    st.inc("files");
    let fdig = digest_bytes(&file);
    let mut log = Digest::default();
    log.u64(fdig);
    let mut nontrivial = 0u64;
    let mut push = |class: String, message: String, ops: &[DiskOp], vs: &mut Vec<Violation>| {
        if vs.len() < 8 {
            vs.push(Violation { property: "C11".into(), run, class, message, case: case_json(mapping, &file, ops) });
        }
    };
    // every strict prefix
    for p in 0..file.len() {
        let ops = [DiskOp::Crash { len: p }];
        st.inc("crash_points");
        if p >= layout::HEADER_LEN {
            nontrivial += 1;
            if Layout::of(&h).in_padding(p as u128) {
                st.inc("probe.cut_inside_padding");
            }
            st.inc(&format!("probe.cut_in.{}", Layout::of(&h).section_of(p as u128)));
        }
        if let Some((c, m)) = judge_ops(mapping, &file, &ops, Some(st)) {
            log.str(&c);
            push(c, m, &ops, vs);
        }
    }
    // every single header edit on the complete file
    for op in header_edits(&h) {
        st.inc("header_edits");
        nontrivial += 1;
        let ops = [op];
        if let Some((c, m)) = judge_ops(mapping, &file, &ops, Some(st)) {
            log.str(&c);
            push(c, m, &ops, vs);
        }
    }
    // seeded combinations: header edit + crash (both faults in one history)
    let edits = header_edits(&h);
    for _ in 0..combos {
        let e = rng.pick(&edits).clone();
        let p = if file.len() > layout::HEADER_LEN && rng.chance(3, 4) { rng.range(layout::HEADER_LEN as u64, file.len() as u64 - 1) as usize } else { rng.usize_below(file.len().max(1)) };
        let ops = [e, DiskOp::Crash { len: p }];
        st.inc("edit_plus_crash");
        nontrivial += 1;
        if let Some((c, m)) = judge_ops(mapping, &file, &ops, Some(st)) {
            log.str(&c);
            push(c, m, &ops, vs);
        }
    }
    st.keyed_max(fdig, nontrivial);
    if sample {
        st.samples.push(json!({
            "mapping_head": String::from_utf8_lossy(&mapping[..mapping.len().min(120)]),
            "file_len": file.len(),
            "header": format!("{:?}", h),
            "crash_points": file.len(),
            "header_edits": header_edits(&h).len(),
            "example_ops": [DiskOp::Crash{len: file.len()-1}.to_json(), header_edits(&h)[0].to_json()],
        }));
    }
    st.run_done(log.finish());
}

// ---------------------------------------------------------------------------------------------

fn any_violation_of_class(mapping: &[u8], class: &str, ops_hint: &[DiskOp]) -> Option<(Vec<DiskOp>, String)> {
    let file = guarded(|| cur::write_cache(mapping)).ok()?;
    let h = Header::read(&file)?;
    // same shape of history first
    let is_crash_only = ops_hint.len() == 1 && matches!(ops_hint[0], DiskOp::Crash { .. });
    if is_crash_only {
        for p in 0..file.len() {
            let ops = vec![DiskOp::Crash { len: p }];
            if let Some((c, m)) = judge_ops(mapping, &file, &ops, None) {
                if c == class {
                    return Some((ops, m));
                }
            }
        }
        return None;
    }
    if ops_hint.len() == 1 {
        for op in header_edits(&h) {
            let ops = vec![op];
            if let Some((c, m)) = judge_ops(mapping, &file, &ops, None) {
                if c == class {
                    return Some((ops, m));
                }
            }
        }
        return None;
    }
    // two-op history: keep the edit kind (same header offset), search the crash point
    if let (DiskOp::HeaderSet { off, .. }, DiskOp::Crash { .. }) = (&ops_hint[0], &ops_hint[1]) {
        for e in header_edits(&h).into_iter().filter(|e| matches!(e, DiskOp::HeaderSet{off: o, ..} if o == off)) {
            for p in 0..file.len() {
                let ops = vec![e.clone(), DiskOp::Crash { len: p }];
                if let Some((c, m)) = judge_ops(mapping, &file, &ops, None) {
                    if c == class {
                        return Some((ops, m));
                    }
                }
            }
        }
    }
    None
}

pub fn minimise(v: &Violation) -> Violation {
    start_minimise_clock(40);
    let Some(mapping) = bytes_from_json(&v.case["mapping"]) else { return v.clone() };
    let ops: Vec<DiskOp> = v.case["ops"].as_array().map(|a| a.iter().filter_map(DiskOp::from_json).collect()).unwrap_or_default();
    let class = v.class.clone();
    let mut budget = 600usize;
    // drop ops first
    let mut ops_min = ops.clone();
    if ops.len() == 2 {
        if let Ok(file) = guarded(|| cur::write_cache(&mapping)) {
            for keep in [vec![ops[0].clone()], vec![ops[1].clone()]] {
                if matches!(judge_ops(&mapping, &file, &keep, None), Some((c, _)) if c == class) {
                    ops_min = keep;
                    break;
                }
            }
        }
    }
    let lines = split_lines(&mapping);
    let min_lines = ddmin(&lines, &mut budget, &mut |ls| any_violation_of_class(&join_lines(ls), &class, &ops_min).is_some());
    let m = join_lines(&min_lines);
    match any_violation_of_class(&m, &class, &ops_min) {
        Some((ops, message)) => {
            let file = cur::write_cache(&m);
            let mut case = case_json(&m, &file, &ops);
            case["file"] = bytes_to_json(&file);
            case["minimised_from"] = json!({"mapping_bytes": mapping.len(), "ops": ops.len()});
            Violation { property: "C11".into(), run: v.run, class, message, case }
        }
        None => v.clone(),
    }
}

pub fn replay(doc: &Value) -> i32 {
    let case = &doc["case"];
    let Some(mapping) = bytes_from_json(&case["mapping"]) else {
        eprintln!("replay: malformed C11 case");
        return 2;
    };
    let ops: Vec<DiskOp> = case["ops"].as_array().map(|a| a.iter().filter_map(DiskOp::from_json).collect()).unwrap_or_default();
    let file = match guarded(|| cur::write_cache(&mapping)) {
        Ok(f) => f,
        Err(p) => {
            println!("control write panicked: {}", p);
            return 2;
        }
    };
    println!("replay C11: file={}B ops={:?}", file.len(), ops);
    match judge_ops(&mapping, &file, &ops, None) {
        Some((class, msg)) => {
            println!("reproduced: class={} :: {}", class, msg);
            1
        }
        None => {
            println!("not reproduced: the property holds on this case");
            0
        }
    }
}

pub fn main(env: &Env) -> i32 {
    let mut rep = Report::new("C11", "fault_enumeration", env);
    rep.expected_probes = vec!["crash_points", "header_edits", "edit_plus_crash", "accepted", "probe.cut_inside_padding", "probe.cut_in.classes", "probe.cut_in.pad1", "probe.cut_in.members", "probe.cut_in.pad2", "probe.cut_in.by_params", "probe.cut_in.pad3", "probe.cut_in.strings", "rejected.InvalidHeader", "rejected.InvalidClasses", "rejected.InvalidMembers", "rejected.UnexpectedStringBytes", "rejected.WrongEndianness", "rejected.WrongFormat", "rejected.WrongVersion"];
    rep.stubs = vec!["SimDisk: durable file image between writer process and reader process; crash keeps an arbitrary prefix, header fields overwritten".into()];
    rep.assumptions = vec![
        "the writer emits the file front to back, so what a crash leaves is a prefix".into(),
        "buffers handed to parse are 8-byte aligned (alignment is not part of the property)".into(),
        "when several clauses apply to one image the earlier one decides: unreadable header, then magic (swapped / foreign), then version, then sizes - each later clause presupposes the earlier fields are meaningful".into(),
        "clause 3 (error kind for 'shorter than declared') uses an independent layout calculator for format version 1; a cut inside inter-section padding may be attributed to either neighbouring section; skipped when the tree writes another version".into(),
        "an accepted strict prefix is compared with the full file on the complete query universe of the mapping (capped at 60000 queries)".into(),
    ];
    rep.exhaustive = true;
    let seed = env.seed;
    let (n_gen, maxc, maxm, combos) = if env.thorough { (env.scaled(1_000_000), 30, 24, 200u64) } else { (env.scaled(25_000), 14, 12, 60u64) };
    let corpus: Vec<(String, Vec<u8>)> = gen::corpus(false).into_iter().filter(|(_, b)| b.len() < if env.thorough { 200_000 } else { 6_000 }).collect();
    rep.rule = format!(
        "per file ({} seeded-generated mappings with 0..{} classes x 0..{} members + {} corpus files, written by the real writer): EVERY strict prefix length 0..len-1 (crash points), \
         EVERY single header edit (magic swapped + 5 foreign magics; 7 other versions; every single-bit flip of the magic and version words; versions differing only in the upper half / second byte; the header and the whole file word-swapped (other endianness); the mapping text and random bytes as a foreign file; each of the 4 counts set to 0, n-1, n+1, n+2, n+2^16, 2^24, 2^31, 2^32-2, 2^32-1), plus {} seeded edit+crash combinations. \
         Exhaustive per file over crash points and single edits. distinct_nontrivial = crash points at or beyond the header (offset >= 24) + header edits + combinations, per distinct file.",
        n_gen, maxc, maxm, corpus.len(), combos
    );
    let n_total = n_gen + corpus.len() as u64;
    let (st, mut vs) = run_indexed(n_total, env.workers, 1, |i, st, vs| {
        let mut rng = Rng::new(run_seed(seed, "C11", i));
        if i < n_gen {
            // one file in 200 is larger (> 255 classes): thresholds in counts and offsets
            let (_cfg, m) = if i % 200 == 7 { gen::gen_case_small(&mut rng, 600, 3) } else { gen::gen_case(&mut rng, maxc, maxm) };
            enumerate_file(i, &m, combos, &mut rng, st, vs, i < 3);
        } else {
            let (_, m) = &corpus[(i - n_gen) as usize];
            enumerate_file(i, m, combos, &mut rng, st, vs, false);
        }
    });
    for k in ["control.write_panicked", "control.full_file_not_accepted"] {
        if st.get(k) > 0 {
            println!("note: {} = {} (fault-free control failed; not a C11 verdict)", k, st.get(k));
        }
    }
    let vs: Vec<Violation> = vs.drain(..).take(3).map(|v| minimise(&v)).collect();
    let evaluations = st.get("parse_calls");
    rep.write(&st, evaluations, st.keyed_sum(), vs.len(), None);
    println!(
        "C11 {}: files={} crash_points={} header_edits={} combos={} accepted={} digest={:016x}",
        env.tier(),
        st.get("files"),
        st.get("crash_points"),
        st.get("header_edits"),
        st.get("edit_plus_crash"),
        st.get("accepted"),
        st.digest_sum
    );
    conclude("C11", "disk", seed, &vs)
}
