//! C12 — no buffer accepted as a cache can make a query panic, overflow or read outside.
//! Seam: the stored bytes of an accepted cache between write and load (`SimDisk` corruption
//! operators: field sets, bit flips, misdirected / lost writes, string damage, garbage bodies).

use crate::api::{cur, AlignedBuf};
use crate::common::*;
use crate::gen;
use crate::layout::{self, rd32, Header, Layout, CLASS_LEN, HEADER_LEN, MEMBER_LEN};
use crate::rng::{digest_bytes, run_seed, Digest, Rng};
use crate::universe::{universe, Query, UniCfg, EXTREME_LINES};
use serde_json::{json, Value};
use std::sync::atomic::{AtomicU64, Ordering};
use std::sync::Arc;

/// Resolved corruption operators (byte offsets + values), so that a replay file is explicit.
#[derive(Clone, Debug, PartialEq)]
pub enum Corrupt {
    SetU32 { off: usize, value: u32, what: String },
    BitFlip { off: usize, bit: u8 },
    ByteSet { off: usize, value: u8, what: String },
    Swap { a: usize, b: usize, len: usize },
    Copy { from: usize, to: usize, len: usize },
    Zero { start: usize, end: usize },
    RandomFill { start: usize, end: usize, seed: u64 },
    /// bytes appended after the string section (a file that grew)
    Append { n: usize, seed: u64 },
    /// the file lost its tail (torn write): only `len` bytes remain
    Truncate { len: usize },
}

impl Corrupt {
    pub fn kind(&self) -> &'static str {
        match self {
            Corrupt::SetU32 { .. } => "field_set",
            Corrupt::BitFlip { .. } => "bit_flip",
            Corrupt::ByteSet { .. } => "byte_set",
            Corrupt::Swap { .. } => "record_swap",
            Corrupt::Copy { .. } => "record_copy",
            Corrupt::Zero { .. } => "zero_range",
            Corrupt::RandomFill { .. } => "garbage_fill",
            Corrupt::Append { .. } => "append_garbage",
            Corrupt::Truncate { .. } => "truncate",
        }
    }
    pub fn to_json(&self) -> Value {
        match self {
            Corrupt::SetU32 { off, value, what } => json!({"op":"set_u32","off":off,"value":value,"what":what}),
            Corrupt::BitFlip { off, bit } => json!({"op":"bit_flip","off":off,"bit":bit}),
            Corrupt::ByteSet { off, value, what } => json!({"op":"byte_set","off":off,"value":value,"what":what}),
            Corrupt::Swap { a, b, len } => json!({"op":"swap","a":a,"b":b,"len":len}),
            Corrupt::Copy { from, to, len } => json!({"op":"copy","from":from,"to":to,"len":len}),
            Corrupt::Zero { start, end } => json!({"op":"zero","start":start,"end":end}),
            Corrupt::RandomFill { start, end, seed } => json!({"op":"random_fill","start":start,"end":end,"seed":seed.to_string()}),
            Corrupt::Append { n, seed } => json!({"op":"append","n":n,"seed":seed.to_string()}),
            Corrupt::Truncate { len } => json!({"op":"truncate","len":len}),
        }
    }
    pub fn from_json(v: &Value) -> Option<Corrupt> {
        let u = |k: &str| v.get(k).and_then(|x| x.as_u64()).map(|x| x as usize);
        let s = |k: &str| v.get(k).and_then(|x| x.as_str()).unwrap_or("").to_string();
        let seed = |k: &str| v.get(k).and_then(|x| x.as_str()).and_then(|x| x.parse::<u64>().ok());
        Some(match v.get("op")?.as_str()? {
            "set_u32" => Corrupt::SetU32 { off: u("off")?, value: u("value")? as u32, what: s("what") },
            "bit_flip" => Corrupt::BitFlip { off: u("off")?, bit: u("bit")? as u8 },
            "byte_set" => Corrupt::ByteSet { off: u("off")?, value: u("value")? as u8, what: s("what") },
            "swap" => Corrupt::Swap { a: u("a")?, b: u("b")?, len: u("len")? },
            "copy" => Corrupt::Copy { from: u("from")?, to: u("to")?, len: u("len")? },
            "zero" => Corrupt::Zero { start: u("start")?, end: u("end")? },
            "random_fill" => Corrupt::RandomFill { start: u("start")?, end: u("end")?, seed: seed("seed")? },
            "append" => Corrupt::Append { n: u("n")?, seed: seed("seed")? },
            "truncate" => Corrupt::Truncate { len: u("len")? },
            _ => return None,
        })
    }
}

pub fn apply(file: &[u8], ops: &[Corrupt]) -> Vec<u8> {
    let mut b = file.to_vec();
    for op in ops {
        match op {
            Corrupt::SetU32 { off, value, .. } => {
                if off + 4 <= b.len() {
                    layout::wr32(&mut b, *off, *value)
                }
            }
            Corrupt::BitFlip { off, bit } => {
                if *off < b.len() {
                    b[*off] ^= 1 << (bit & 7)
                }
            }
            Corrupt::ByteSet { off, value, .. } => {
                if *off < b.len() {
                    b[*off] = *value
                }
            }
            Corrupt::Swap { a, b: bb, len } => {
                if a + len <= b.len() && bb + len <= b.len() {
                    for i in 0..*len {
                        b.swap(a + i, bb + i);
                    }
                }
            }
            Corrupt::Copy { from, to, len } => {
                if from + len <= b.len() && to + len <= b.len() {
                    let tmp = b[*from..from + len].to_vec();
                    b[*to..to + len].copy_from_slice(&tmp);
                }
            }
            Corrupt::Zero { start, end } => {
                let e = (*end).min(b.len());
                if *start < e {
                    for x in &mut b[*start..e] {
                        *x = 0;
                    }
                }
            }
            Corrupt::RandomFill { start, end, seed } => {
                let e = (*end).min(b.len());
                if *start < e {
                    let mut r = Rng::new(*seed);
                    for x in &mut b[*start..e] {
                        *x = r.next_u64() as u8;
                    }
                }
            }
            Corrupt::Append { n, seed } => {
                let mut r = Rng::new(*seed);
                for _ in 0..*n {
                    b.push(r.next_u64() as u8);
                }
            }
            Corrupt::Truncate { len } => b.truncate(*len),
        }
    }
    b
}

const CLASS_FIELDS: [&str; 7] = [
    "obfuscated_name_offset",
    "original_name_offset",
    "file_name_offset",
    "members_offset",
    "members_len",
    "members_by_params_offset",
    "members_by_params_len",
];
const MEMBER_FIELDS: [&str; 9] = [
    "obfuscated_name_offset",
    "startline",
    "endline",
    "original_class_offset",
    "original_file_offset",
    "original_name_offset",
    "original_startline",
    "original_endline",
    "params_offset",
];
const HEADER_FIELDS: [&str; 6] = ["magic", "version", "num_classes", "num_members", "num_members_by_params", "string_bytes"];

/// Every 32-bit field of the file: (byte offset, description, the count its value is compared with).
pub fn all_fields(file: &[u8]) -> Vec<(usize, String, u32)> {
    let mut v = Vec::new();
    let Some(h) = Header::read(file) else { return v };
    let l = Layout::of(&h);
    if l.total_len() > file.len() as u128 {
        return v;
    }
    for (i, f) in HEADER_FIELDS.iter().enumerate() {
        v.push((i * 4, format!("header.{}", f), rd32(file, i * 4)));
    }
    for c in 0..h.num_classes as usize {
        let base = l.classes_start as usize + c * CLASS_LEN;
        for (i, f) in CLASS_FIELDS.iter().enumerate() {
            let bound = match i {
                0..=2 => h.string_bytes,
                3 | 4 => h.num_members,
                _ => h.num_members_by_params,
            };
            v.push((base + i * 4, format!("class[{}].{}", c, f), bound));
        }
    }
    for (sec, start, n) in
        [("member", l.members_start as usize, h.num_members as usize), ("by_params", l.by_params_start as usize, h.num_members_by_params as usize)]
    {
        for m in 0..n {
            let base = start + m * MEMBER_LEN;
            for (i, f) in MEMBER_FIELDS.iter().enumerate() {
                let bound = match i {
                    1 | 2 | 6 | 7 => rd32(file, base + i * 4),
                    _ => h.string_bytes,
                };
                v.push((base + i * 4, format!("{}[{}].{}", sec, m, f), bound));
            }
        }
    }
    v
}

fn boundary_values(current: u32, bound: u32) -> Vec<u32> {
    // (2^32/28 and 2^32/36: where count x entry size wraps a 32-bit product)
    let mut v = vec![0, 1, 2, 7, 100, bound.wrapping_sub(1), bound, bound.wrapping_add(1), 1 << 31, u32::MAX - 1, u32::MAX, 153_391_688, 153_391_689, 153_391_690, 119_304_646, 119_304_647, 119_304_648];
    v.retain(|x| *x != current);
    v.sort_unstable();
    v.dedup();
    v
}

/// The single-fault enumeration of the quick tier: every field x every boundary value.
pub fn enumerate_field_sets(file: &[u8]) -> Vec<Vec<Corrupt>> {
    let mut out = Vec::new();
    for (off, what, bound) in all_fields(file) {
        let cur = rd32(file, off);
        for value in boundary_values(cur, bound) {
            out.push(vec![Corrupt::SetU32 { off, value, what: what.clone() }]);
        }
    }
    out
}

/// Related field pairs (offset/length, start/end): both members set to boundary values at once, so
/// that a sanity check relating the two cannot hide what lies behind it.
pub fn enumerate_field_pairs(file: &[u8]) -> Vec<Vec<Corrupt>> {
    let mut out = Vec::new();
    let fields = all_fields(file);
    let find = |name: &str| fields.iter().find(|f| f.1 == name).cloned();
    let mut pairs: Vec<(String, String)> = vec![("header.num_members".into(), "header.num_members_by_params".into()), ("header.num_classes".into(), "header.num_members".into())];
    let Some(h) = Header::read(file) else { return out };
    for c in 0..(h.num_classes as usize).min(6) {
        pairs.push((format!("class[{}].members_offset", c), format!("class[{}].members_len", c)));
        pairs.push((format!("class[{}].members_by_params_offset", c), format!("class[{}].members_by_params_len", c)));
    }
    for (sec, n) in [("member", h.num_members as usize), ("by_params", h.num_members_by_params as usize)] {
        for m in 0..n.min(8) {
            pairs.push((format!("{}[{}].startline", sec, m), format!("{}[{}].endline", sec, m)));
            pairs.push((format!("{}[{}].original_startline", sec, m), format!("{}[{}].original_endline", sec, m)));
            pairs.push((format!("{}[{}].startline", sec, m), format!("{}[{}].original_startline", sec, m)));
        }
    }
    for (a, b) in pairs {
        let (Some(fa), Some(fb)) = (find(&a), find(&b)) else { continue };
        let vals = |f: &(usize, String, u32)| -> Vec<u32> {
            let mut v = vec![0u32, 1, f.2.wrapping_sub(1), f.2, f.2.wrapping_add(1), 1 << 31, u32::MAX - 1, u32::MAX];
            v.sort_unstable();
            v.dedup();
            v
        };
        // values of the second field relative to the first (len == remaining, remaining +- 1; end == start)
        let cur_a = rd32(file, fa.0);
        let rel: Vec<u32> = vec![fa.2.wrapping_sub(cur_a), fa.2.wrapping_sub(cur_a).wrapping_add(1), fa.2.wrapping_sub(cur_a).wrapping_sub(1), cur_a, cur_a.wrapping_sub(1)];
        for vb in rel {
            out.push(vec![Corrupt::SetU32 { off: fb.0, value: vb, what: format!("{} (relative to {})", fb.1, fa.1) }]);
        }
        for va in vals(&fa) {
            for vb in vals(&fb) {
                out.push(vec![
                    Corrupt::SetU32 { off: fa.0, value: va, what: fa.1.clone() },
                    Corrupt::SetU32 { off: fb.0, value: vb, what: fb.1.clone() },
                ]);
            }
        }
    }
    out
}

/// Offsets of string starts (LEB128 prefix positions) referenced by any record.
fn string_offsets(file: &[u8], h: &Header, l: &Layout) -> Vec<usize> {
    let mut offs = Vec::new();
    let ss = l.strings_start as usize;
    let mut push = |o: u32| {
        if o != u32::MAX && (o as usize) < h.string_bytes as usize {
            offs.push(ss + o as usize);
        }
    };
    for c in 0..h.num_classes as usize {
        let base = l.classes_start as usize + c * CLASS_LEN;
        for i in 0..3 {
            push(rd32(file, base + i * 4));
        }
    }
    for (start, n) in [(l.members_start as usize, h.num_members as usize), (l.by_params_start as usize, h.num_members_by_params as usize)] {
        for m in 0..n {
            let base = start + m * MEMBER_LEN;
            for i in [0usize, 3, 4, 5, 8] {
                push(rd32(file, base + i * 4));
            }
        }
    }
    offs.sort_unstable();
    offs.dedup();
    offs
}

/// One seeded corruption of a random kind.
pub fn random_corruption(rng: &mut Rng, file: &[u8], enabled: &[u8]) -> Option<Corrupt> {
    let h = Header::read(file)?;
    let l = Layout::of(&h);
    if l.total_len() > file.len() as u128 {
        return None;
    }
    let kind = *rng.pick(enabled);
    let fields = all_fields(file);
    let rec_sections: Vec<(usize, usize, usize)> = [
        (l.classes_start as usize, h.num_classes as usize, CLASS_LEN),
        (l.members_start as usize, h.num_members as usize, MEMBER_LEN),
        (l.by_params_start as usize, h.num_members_by_params as usize, MEMBER_LEN),
    ]
    .into_iter()
    .filter(|s| s.1 >= 1)
    .collect();
    Some(match kind {
        0 => {
            // field set; bias away from magic/version (those only exercise the reject path)
            let (off, what, bound) = if fields.len() > 6 && rng.chance(9, 10) { fields[6 + rng.usize_below(fields.len() - 6)].clone() } else { rng.pick(&fields).clone() };
            let cur = rd32(file, off);
            let mut vals = boundary_values(cur, bound);
            vals.push(rng.next_u64() as u32);
            vals.push(rng.below(h.string_bytes as u64 + 2) as u32);
            Corrupt::SetU32 { off, value: *rng.pick(&vals), what }
        }
        1 => Corrupt::BitFlip { off: if file.len() > 8 && rng.chance(9, 10) { rng.range(8, file.len() as u64 - 1) as usize } else { rng.usize_below(file.len()) }, bit: rng.below(8) as u8 },
        2 | 3 => {
            if rec_sections.is_empty() {
                return None;
            }
            let (start, n, len) = *rng.pick(&rec_sections);
            let a = start + rng.usize_below(n) * len;
            let b = start + rng.usize_below(n) * len;
            if kind == 2 {
                Corrupt::Swap { a, b, len }
            } else {
                Corrupt::Copy { from: a, to: b, len }
            }
        }
        4 => {
            // string length prefix damage
            let offs = string_offsets(file, &h, &l);
            if offs.is_empty() {
                return None;
            }
            let off = *rng.pick(&offs);
            let value = *rng.pick(&[0x80u8, 0xFF, 0x7F, 0x00, 0x01, 0xFE, file[off].wrapping_add(1), file[off] | 0x80]);
            Corrupt::ByteSet { off, value, what: "string length prefix".into() }
        }
        5 => {
            // UTF-8 damage inside the string section
            if h.string_bytes == 0 {
                return None;
            }
            let off = l.strings_start as usize + rng.usize_below(h.string_bytes as usize);
            Corrupt::ByteSet { off, value: *rng.pick(&[0x80u8, 0xC0, 0xFF, 0xE2, 0xF0, 0xBF]), what: "string byte".into() }
        }
        6 => {
            // lost write: an aligned 512-byte sector, or everything after p, reads back as zeros
            if rng.chance(1, 2) {
                let sectors = (file.len() + 511) / 512;
                let s = rng.usize_below(sectors) * 512;
                Corrupt::Zero { start: s.max(if rng.chance(1, 2) { HEADER_LEN } else { 0 }), end: s + 512 }
            } else {
                Corrupt::Zero { start: rng.range(HEADER_LEN as u64, file.len() as u64) as usize, end: file.len() }
            }
        }
        7 => Corrupt::RandomFill {
            start: if rng.chance(2, 3) { HEADER_LEN } else { rng.range(HEADER_LEN as u64, file.len() as u64) as usize },
            end: file.len(),
            seed: rng.next_u64(),
        },
        8 => Corrupt::Append { n: rng.range(1, 64) as usize, seed: rng.next_u64() },
        _ => Corrupt::Truncate { len: rng.usize_below(file.len()) },
    })
}

// ---------------------------------------------------------------------------------------------
// executing one damaged image

const MARK_RANGE: &str = "PGSIM-C12-STRING-OUTSIDE";
const MARK_UTF8: &str = "PGSIM-C12-INVALID-UTF8";

pub struct ImageResult {
    pub accepted: bool,
    pub queries_run: u64,
    pub violation: Option<(String, String, Option<Query>)>,
    pub log: u64,
}

/// Extra queries derived from the *damaged* image itself (names that only exist after corruption).
fn names_from_image(img: &[u8], max: usize) -> Vec<Query> {
    let mut out = Vec::new();
    let Some(h) = Header::read(img) else { return out };
    let l = Layout::of(&h);
    if l.strings_start > img.len() as u128 || l.classes_end > img.len() as u128 {
        return out;
    }
    let strings = &img[l.strings_start as usize..];
    let read = |off: u32| -> Option<String> {
        let mut p = off as usize;
        let mut len: u64 = 0;
        let mut shift = 0;
        loop {
            let b = *strings.get(p)?;
            p += 1;
            len |= ((b & 0x7f) as u64) << shift;
            if b & 0x80 == 0 {
                break;
            }
            shift += 7;
            if shift > 63 {
                return None;
            }
        }
        let bytes = strings.get(p..p.checked_add(len as usize)?)?;
        std::str::from_utf8(bytes).ok().map(|s| s.to_string())
    };
    for c in 0..(h.num_classes as usize).min(max) {
        let base = l.classes_start as usize + c * CLASS_LEN;
        if let Some(name) = read(rd32(img, base)) {
            out.push(Query::Class(name.clone()));
            out.push(Query::FrameLine { class: name.clone(), method: "a".into(), line: 1, file: None });
            out.push(Query::FrameParams { class: name, method: "a".into(), params: "".into() });
        }
    }
    out
}

/// "For every byte buffer, parsing returns a value or an error without panicking" includes buffers
/// at any address: parse the same bytes at every misalignment 1..7 (whatever it answers).
pub fn parse_misaligned(img_bytes: &[u8]) -> Option<(String, String)> {
    let mut padded = vec![0u8; img_bytes.len() + 8];
    let carrier = AlignedBuf::new(&padded);
    drop(std::mem::take(&mut padded));
    let mut carrier = carrier;
    for off in 1..8usize {
        carrier.as_mut_slice()[off..off + img_bytes.len()].copy_from_slice(img_bytes);
        let slice = &carrier.as_slice()[off..off + img_bytes.len()];
        if let Err(p) = guarded(|| cur::ProguardCache::parse(slice).map(|c| c.remap_class("a").is_some())) {
            return Some((format!("parse-panic-misaligned {}", panic_class(&p)), format!("ProguardCache::parse panicked on a buffer at address % 8 == {}: {}", off, p)));
        }
    }
    None
}

pub fn run_image(img_bytes: &[u8], queries: &[Query], derive_names: bool) -> ImageResult {
    let buf = AlignedBuf::new(img_bytes);
    let slice = buf.as_slice();
    let lo = slice.as_ptr() as usize;
    let hi = lo + slice.len();
    let mut log = Digest::default();
    let parsed = guarded(|| cur::ProguardCache::parse(slice));
    let cache = match parsed {
        Err(p) => {
            return ImageResult {
                accepted: false,
                queries_run: 0,
                violation: Some((format!("parse-panic {}", panic_class(&p)), format!("ProguardCache::parse panicked: {}", p), None)),
                log: 0,
            }
        }
        Ok(Err(e)) => {
            log.str(cur::kind_name(e.kind()));
            return ImageResult { accepted: false, queries_run: 0, violation: None, log: log.finish() };
        }
        Ok(Ok(c)) => c,
    };
    let extra: Vec<Query> = if derive_names { names_from_image(slice, 3) } else { Vec::new() };
    let mut n = 0u64;
    for q in queries.iter().chain(extra.iter()) {
        n += 1;
        let mut qr: Vec<(usize, usize)> = Vec::with_capacity(4);
        q.ranges(&mut qr);
        let r = guarded(|| {
            cur::answer_cache_with(&cache, q, &mut |s: &str| {
                if s.is_empty() {
                    return;
                }
                let p = s.as_ptr() as usize;
                let e = p + s.len();
                let in_buf = p >= lo && e <= hi;
                let in_query = qr.iter().any(|(qp, ql)| p >= *qp && e <= qp + ql);
                if !in_buf && !in_query {
                    panic!("{}", MARK_RANGE);
                }
                if std::str::from_utf8(s.as_bytes()).is_err() {
                    panic!("{}", MARK_UTF8);
                }
            })
        });
        match r {
            Ok(ans) => log.str(&ans),
            Err(p) => {
                let (class, msg) = if p.contains(MARK_RANGE) {
                    ("returned-string-outside-buffer-and-query".to_string(), "a returned &str is neither a slice of the cache buffer nor of the query".to_string())
                } else if p.contains(MARK_UTF8) {
                    ("returned-str-invalid-utf8".to_string(), "a returned &str holds invalid UTF-8 (unchecked read of damaged bytes)".to_string())
                } else {
                    (format!("query-panic {}", panic_class(&p)), format!("{} panicked: {}", q.describe(), p))
                };
                return ImageResult { accepted: true, queries_run: n, violation: Some((class, msg, Some(q.clone()))), log: log.finish() };
            }
        }
    }
    ImageResult { accepted: true, queries_run: n, violation: None, log: log.finish() }
}

// ---------------------------------------------------------------------------------------------
// watchdog: a query that never returns becomes a violation whose replay hangs again

pub struct Watch {
    slots: Vec<[AtomicU64; 3]>, // start_ms (0 = idle), run, image index
    t0: std::time::Instant,
}

impl Watch {
    fn new(n: usize) -> Arc<Watch> {
        Arc::new(Watch { slots: (0..n).map(|_| [AtomicU64::new(0), AtomicU64::new(0), AtomicU64::new(0)]).collect(), t0: std::time::Instant::now() })
    }
    fn now_ms(&self) -> u64 {
        self.t0.elapsed().as_millis() as u64 + 1
    }
}

thread_local! {
    static SLOT: std::cell::Cell<usize> = const { std::cell::Cell::new(usize::MAX) };
}
static NEXT_SLOT: AtomicU64 = AtomicU64::new(0);

fn my_slot(w: &Watch) -> usize {
    SLOT.with(|s| {
        if s.get() == usize::MAX {
            s.set(NEXT_SLOT.fetch_add(1, Ordering::Relaxed) as usize % w.slots.len());
        }
        s.get()
    })
}

const HANG_LIMIT_MS: u64 = 20_000;

// ---------------------------------------------------------------------------------------------

const UNI_QUICK: UniCfg = UniCfg { lines_full: false, cap: 220, compound: true };

pub struct FilePlan {
    pub mapping: Vec<u8>,
    pub file: Vec<u8>,
    pub queries: Vec<Query>,
    pub images: Vec<Vec<Corrupt>>,
}

/// Deterministic plan of one run: the mapping, its valid file, the queries, and the list of
/// damaged images to try. Pure function of (seed, tier, run) — the watchdog relies on that.
pub fn plan_run(seed: u64, thorough: bool, run: u64, corpus: &[(String, Vec<u8>)], n_gen: u64) -> Option<FilePlan> {
    let mut rng = Rng::new(run_seed(seed, if thorough { "C12.explore" } else { "C12.enum" }, run));
    let mapping = if run < n_gen {
        if thorough {
            gen::gen_case(&mut rng, 10, 12).1
        } else {
            if run % 230 == 11 {
                // > 255 classes: thresholds in counts and offsets
                gen::gen_case_small(&mut rng, 500, 2).1
            } else {
                gen::gen_case_small(&mut rng, 5, 7).1
            }
        }
    } else {
        corpus.get((run - n_gen) as usize)?.1.clone()
    };
    let file = guarded(|| cur::write_cache(&mapping)).ok()?;
    let mut queries = universe(&mapping, &mut rng, &UNI_QUICK);
    // extreme lines for the first methods, in case sampling dropped them
    let scan = crate::universe::scan(&mapping);
    for c in scan.iter().take(3) {
        for m in c.methods.keys().take(2) {
            for l in EXTREME_LINES {
                queries.push(Query::FrameLine { class: c.obf.clone(), method: m.clone(), line: *l, file: None });
            }
        }
    }
    // image 0 is the undamaged file: "for every buffer that parses" includes the valid ones
    let mut images: Vec<Vec<Corrupt>> = vec![Vec::new()];
    if !thorough {
        images.extend(enumerate_field_sets(&file));
        images.extend(enumerate_field_pairs(&file));
        // a few seeded multi-kind images as well
        let all: Vec<u8> = (0..10).collect();
        for _ in 0..40 {
            if let Some(c) = random_corruption(&mut rng, &file, &all) {
                images.push(vec![c]);
            }
        }
    } else {
        let n_images = if run < n_gen { 48 } else { 400 };
        for _ in 0..n_images {
            // swarm: random subset of kinds per image, 1..6 faults
            let enabled: Vec<u8> = {
                let v: Vec<u8> = (0..10u8).filter(|_| rng.chance(1, 2)).collect();
                if v.is_empty() {
                    vec![0]
                } else {
                    v
                }
            };
            let k = rng.range(1, 6);
            let mut ops = Vec::new();
            let mut cur_file = file.clone();
            for _ in 0..k {
                if let Some(c) = random_corruption(&mut rng, &cur_file, &enabled) {
                    cur_file = apply(&cur_file, &[c.clone()]);
                    ops.push(c);
                }
            }
            if !ops.is_empty() {
                images.push(ops);
            }
        }
    }
    Some(FilePlan { mapping, file, queries, images })
}

fn case_json(plan: &FilePlan, ops: &[Corrupt], q: Option<&Query>) -> Value {
    json!({
        "mapping": bytes_to_json(&plan.mapping),
        "file": {"hex": hex::encode(&plan.file)},
        "ops": ops.iter().map(|o| o.to_json()).collect::<Vec<_>>(),
        "query": q.map(|q| q.to_json()),
    })
}

fn run_plan(run: u64, plan: &FilePlan, watch: &Watch, st: &mut Stats, vs: &mut Vec<Violation>) {
    let slot = my_slot(watch);
    st.inc("files");
    let fdig = digest_bytes(&plan.file);
    let mut log = Digest::default();
    log.u64(fdig);
    let mut nontrivial = 0u64;
    for (idx, ops) in plan.images.iter().enumerate() {
        let img = apply(&plan.file, ops);
        watch.slots[slot][1].store(run, Ordering::Relaxed);
        watch.slots[slot][2].store(idx as u64, Ordering::Relaxed);
        watch.slots[slot][0].store(watch.now_ms(), Ordering::SeqCst);
        crash_mark(run, idx as u64);
        let mut r = run_image(&img, &plan.queries, true);
        if r.violation.is_none() && (idx < 4 || idx % 97 == 0) {
            st.inc("images_also_parsed_at_misaligned_addresses");
            if let Some((c, m)) = parse_misaligned(&img) {
                r.violation = Some((c, m, None));
            }
        }
        watch.slots[slot][0].store(0, Ordering::SeqCst);
        st.inc("images");
        for o in ops {
            st.inc(&format!("fault.{}", o.kind()));
        }
        st.add("query_calls", r.queries_run);
        if r.accepted {
            st.inc("images_accepted_by_parse");
            if img != plan.file {
                nontrivial += 1;
                if plan.images.len() > 500 {
                    // enumeration: distinct by construction
                } else {
                    st.note_distinct(digest_bytes(&img));
                }
            }
        } else {
            st.inc("images_rejected_by_parse");
        }
        log.u64(r.log);
        if let Some((class, message, q)) = r.violation {
            if vs.len() < 8 {
                vs.push(Violation { property: "C12".into(), run, class, message, case: case_json(plan, ops, q.as_ref()) });
            }
        }
    }
    st.keyed_max(fdig, nontrivial);
    if run < 2 {
        st.samples.push(json!({
            "mapping_head": String::from_utf8_lossy(&plan.mapping[..plan.mapping.len().min(120)]),
            "file_len": plan.file.len(),
            "images": plan.images.len(),
            "queries_per_image": plan.queries.len(),
            "example_ops": plan.images.iter().take(2).map(|o| o.iter().map(|x| x.to_json()).collect::<Vec<_>>()).collect::<Vec<_>>(),
            "example_query": plan.queries.first().map(|q| q.describe()),
        }));
    }
    st.run_done(log.finish());
}

// ---------------------------------------------------------------------------------------------

fn violates(file: &[u8], ops: &[Corrupt], queries: &[Query], class: &str) -> Option<(String, Option<Query>)> {
    let img = apply(file, ops);
    let r = run_image(&img, queries, true);
    match r.violation {
        Some((c, m, q)) if c == class => Some((m, q)),
        _ => None,
    }
}

pub fn minimise(v: &Violation) -> Violation {
    start_minimise_clock(40);
    let Some(file) = bytes_from_json(&v.case["file"]) else { return v.clone() };
    let ops: Vec<Corrupt> = v.case["ops"].as_array().map(|a| a.iter().filter_map(Corrupt::from_json).collect()).unwrap_or_default();
    let Some(q) = v.case.get("query").and_then(Query::from_json) else {
        return v.clone();
    };
    let class = v.class.clone();
    let queries = vec![q];
    let mut budget = 400usize;
    // fewer corruption ops (each op is resolved, so dropping one leaves the others meaningful)
    let ops_min = ddmin(&ops, &mut budget, &mut |o| violates(&file, o, &queries, &class).is_some());
    match violates(&file, &ops_min, &queries, &class) {
        Some((message, q)) => {
            let mut case = v.case.clone();
            case["ops"] = json!(ops_min.iter().map(|o| o.to_json()).collect::<Vec<_>>());
            case["query"] = json!(q.map(|q| q.to_json()));
            case["minimised_from"] = json!({"ops": ops.len()});
            case["damaged_image"] = json!({"hex": hex::encode(apply(&file, &ops_min))});
            Violation { property: "C12".into(), run: v.run, class, message, case }
        }
        None => v.clone(),
    }
}

pub fn replay(doc: &Value) -> i32 {
    let case = &doc["case"];
    let Some(file) = bytes_from_json(&case["file"]) else {
        eprintln!("replay: malformed C12 case");
        return 2;
    };
    let ops: Vec<Corrupt> = case["ops"].as_array().map(|a| a.iter().filter_map(Corrupt::from_json).collect()).unwrap_or_default();
    let queries: Vec<Query> = match case.get("query").and_then(Query::from_json) {
        Some(q) => vec![q],
        None => {
            // a hang or parse-level case: re-derive the universe from the mapping
            let mapping = bytes_from_json(&case["mapping"]).unwrap_or_default();
            let mut rng = Rng::new(0);
            universe(&mapping, &mut rng, &UniCfg { lines_full: true, cap: 100_000, compound: true })
        }
    };
    println!("replay C12: file={}B ops={:?} queries={}", file.len(), ops, queries.len());
    let img = apply(&file, &ops);
    if doc["class"].as_str().map_or(false, |c| c.starts_with("parse-panic-misaligned")) {
        return match parse_misaligned(&img) {
            Some((class, msg)) => {
                println!("reproduced: class={} :: {}", class, msg);
                1
            }
            None => {
                println!("not reproduced: the property holds on this case");
                0
            }
        };
    }
    // the replay of a hang hangs again: give it the same limit
    let (tx, rx) = std::sync::mpsc::channel();
    let img2 = img.clone();
    let q2 = queries.clone();
    std::thread::spawn(move || {
        let r = run_image(&img2, &q2, true);
        let _ = tx.send(r.violation);
    });
    match rx.recv_timeout(std::time::Duration::from_millis(HANG_LIMIT_MS)) {
        Err(_) => {
            println!("reproduced: query did not terminate within {} ms", HANG_LIMIT_MS);
            1
        }
        Ok(Some((class, msg, q))) => {
            println!("reproduced: class={} :: {} :: query={:?}", class, msg, q.map(|q| q.describe()));
            1
        }
        Ok(None) => {
            println!("not reproduced: the property holds on this case");
            0
        }
    }
}

/// `pgsim c12 --dump-case RUN CASE --signal N`: rebuild the case a crashed run was executing and
/// write it as a replay file (no library code is executed for the damaged image here).
pub fn dump_case(env: &Env, run: u64, case: usize, signal: u64) -> i32 {
    let thorough = env.thorough;
    let corpus: Vec<(String, Vec<u8>)> = gen::corpus(false).into_iter().filter(|(_, b)| b.len() < if thorough { 60_000 } else { 3_000 }).collect();
    let n_gen = if thorough { env.scaled(150_000) } else { env.scaled(700) };
    let Some(plan) = plan_run(env.seed, thorough, run, &corpus, n_gen) else {
        eprintln!("cannot rebuild run {}", run);
        return 2;
    };
    let ops = plan.images.get(case).cloned().unwrap_or_default();
    let v = Violation {
        property: "C12".into(),
        run,
        class: format!("process-killed-by-signal-{}", signal),
        message: format!("the process died with signal {} while parsing / querying damaged image #{} of run {}", signal, case, run),
        case: case_json(&plan, &ops, None),
    };
    conclude("C12", "disk", env.seed, &[v])
}

pub fn main(env: &Env) -> i32 {
    let mut rep = Report::new("C12", if env.thorough { "exploration" } else { "fault_enumeration" }, env);
    rep.expected_probes = vec!["fault.field_set", "fault.bit_flip", "fault.byte_set", "fault.record_swap", "fault.record_copy", "fault.zero_range", "fault.garbage_fill", "fault.append_garbage", "fault.truncate", "images_accepted_by_parse", "images_rejected_by_parse", "images_also_parsed_at_misaligned_addresses"];
    rep.stubs = vec!["SimDisk corruption operators on the stored cache image: field set, bit flip, record swap/copy (misdirected write), string length prefix, UTF-8 byte, zeroed sector / tail (lost write), garbage fill, appended garbage".into()];
    rep.assumptions = vec![
        "built with overflow-checks and debug-assertions on, so arithmetic overflow is a panic and not a silent wrap".into(),
        "ProguardCache::test(), Debug and Display helpers are excluded (the property does not list them; test() asserts by design)".into(),
        "buffers are 8-byte aligned; a hang is declared after 20 s without return".into(),
        "pointer-range check: every non-empty returned &str lies inside the cache buffer or inside a string of the query, and is valid UTF-8".into(),
    ];
    let seed = env.seed;
    let thorough = env.thorough;
    let corpus: Vec<(String, Vec<u8>)> =
        gen::corpus(false).into_iter().filter(|(_, b)| b.len() < if thorough { 60_000 } else { 3_000 }).collect();
    let n_gen = if thorough { env.scaled(150_000) } else { env.scaled(700) };
    let n_total = n_gen + corpus.len() as u64;
    rep.exhaustive = !thorough;
    rep.rule = if thorough {
        format!(
            "{} seeded runs + {} corpus files; per run a generated mapping (0..10 classes x 0..12 members) is written by the real writer, then 48 damaged images (400 for corpus files) are derived, each by 1..6 corruption operators drawn from a per-image random subset of 9 kinds (applied sequentially so later faults see earlier damage); every image accepted by parse is driven with ~220-300 queries (full universe sample + extreme lines + names read back from the damaged image). distinct_nontrivial = distinct damaged images (by digest) accepted by parse (the digest set is capped at 4 million entries, so this is a lower bound).",
            n_gen,
            corpus.len()
        )
    } else {
        format!(
            "{} seeded-generated mappings (0..5 classes x 0..7 members) + {} small corpus files; per file EVERY 32-bit field (6 header, 7 per class, 9 per member, 9 per by-params entry) is set to EVERY boundary value {{0,1,2,7,100,bound-1,bound,bound+1,2^31,2^32-2,2^32-1}} (bound = the count/length the field is compared with), single fault; every related field pair (offset/len of a class's member and by-params ranges, start/end and original start/end lines of the first members, header counts) set to every combination of {{0,1,bound-1,bound,bound+1,2^31,2^32-2,2^32-1}}; plus 40 seeded single corruptions of the other kinds; every accepted image is driven with the query universe sample incl. lines 0,1,2^32-2..2^32,usize::MAX. Exhaustive per file over (field x boundary value). distinct_nontrivial = damaged images accepted by parse (distinct by construction per file).",
            n_gen,
            corpus.len()
        )
    };
    let watch = Watch::new(env.workers.max(1) * 2);
    // watchdog thread
    {
        let w = watch.clone();
        let corpus2 = corpus.clone();
        std::thread::spawn(move || loop {
            std::thread::sleep(std::time::Duration::from_millis(500));
            let now = w.now_ms();
            for s in &w.slots {
                let t = s[0].load(Ordering::SeqCst);
                if t != 0 && now.saturating_sub(t) > HANG_LIMIT_MS {
                    let run = s[1].load(Ordering::Relaxed);
                    let idx = s[2].load(Ordering::Relaxed) as usize;
                    let case = plan_run(seed, thorough, run, &corpus2, n_gen)
                        .map(|p| case_json(&p, p.images.get(idx).map(|v| v.as_slice()).unwrap_or(&[]), None))
                        .unwrap_or(json!({}));
                    let v = Violation {
                        property: "C12".into(),
                        run,
                        class: "query-does-not-terminate".into(),
                        message: format!("a query on damaged image #{} of run {} did not return within {} ms", idx, run, HANG_LIMIT_MS),
                        case,
                    };
                    let code = conclude("C12", "disk", seed, &[v]);
                    std::process::exit(code);
                }
            }
        });
    }
    let (st, mut vs) = run_indexed(n_total, env.workers, 1, |i, st, vs| match plan_run(seed, thorough, i, &corpus, n_gen) {
        Some(plan) => run_plan(i, &plan, &watch, st, vs),
        None => st.inc("control.write_panicked_or_missing"),
    });
    if st.get("control.write_panicked_or_missing") > 0 {
        println!("note: {} runs skipped because the fault-free control write panicked (not a C12 verdict)", st.get("control.write_panicked_or_missing"));
    }
    let vs: Vec<Violation> = vs.drain(..).take(3).map(|v| minimise(&v)).collect();
    let distinct = if thorough { st.distinct.len() as u64 } else { st.keyed_sum() };
    rep.write(&st, st.get("images"), distinct, vs.len(), None);
    println!(
        "C12 {}: files={} images={} accepted={} rejected={} query_calls={} digest={:016x}",
        env.tier(),
        st.get("files"),
        st.get("images"),
        st.get("images_accepted_by_parse"),
        st.get("images_rejected_by_parse"),
        st.get("query_calls"),
        st.digest_sum
    );
    conclude("C12", "disk", seed, &vs)
}

// ---------------------------------------------------------------------------------------------
// Miri sample: the same damaged images, interpreted. Any out-of-bounds, misaligned or
// uninitialised read inside watto's unsafe casts or the string reader is a hard Miri error,
// even when natively it would "just work".

pub fn miri_main(args: &[String]) -> i32 {
    let wseed: u64 = arg_value(args, "--wseed").and_then(|s| s.parse().ok()).unwrap_or(1);
    let n_images: usize = arg_value(args, "--images").and_then(|s| s.parse().ok()).unwrap_or(12);
    let mut rng = Rng::new(run_seed(wseed, "C12.miri", 0));
    let mapping: Vec<u8> = if wseed % 3 == 0 {
        b"com.example.F\xc3\xb6\xc3\xb6 -> a.a:\n# {\"id\":\"sourceFile\",\"fileName\":\"Foo.kt\"}\n    1:3:void run():10:12 -> a\n    4:4:void x.Y.inl():7:7 -> a\n    4:4:void go(int):20 -> a\ncom.example.Bar -> a.b:\n    void <init>() -> <init>\n".to_vec()
    } else {
        gen::gen_case(&mut rng, 3, 4).1
    };
    let file = cur::write_cache(&mapping);
    let mut queries = universe(&mapping, &mut rng, &UniCfg { lines_full: false, cap: 8, compound: false });
    queries.push(Query::TraceText("a.a: x\n    at a.a.a(SourceFile:2)\n".into()));
    for c in crate::universe::scan(&mapping).iter().take(2) {
        queries.push(Query::Class(c.obf.clone()));
        for m in c.methods.keys().take(1) {
            queries.push(Query::Method(c.obf.clone(), m.clone()));
            queries.push(Query::FrameLine { class: c.obf.clone(), method: m.clone(), line: 2, file: None });
            queries.push(Query::FrameLine { class: c.obf.clone(), method: m.clone(), line: usize::MAX, file: None });
            queries.push(Query::FrameParams { class: c.obf.clone(), method: m.clone(), params: "".into() });
        }
    }
    let all = enumerate_field_sets(&file);
    let kinds: Vec<u8> = (0..10).collect();
    let mut accepted = 0;
    let mut d = Digest::default();
    for k in 0..n_images {
        let ops: Vec<Corrupt> = if k % 3 != 0 && !all.is_empty() {
            all[rng.usize_below(all.len())].clone()
        } else {
            (0..rng.range(1, 3)).filter_map(|_| random_corruption(&mut rng, &file, &kinds)).collect()
        };
        let img = apply(&file, &ops);
        let r = run_image(&img, &queries, true);
        if r.accepted {
            accepted += 1;
        }
        d.u64(r.log);
        if let Some((class, msg, q)) = r.violation {
            println!("MIRI-C12 VIOLATION class={} :: {} :: ops={:?} query={:?}", class, msg, ops, q.map(|q| q.describe()));
            return 1;
        }
    }
    println!("MIRI-C12 ok wseed={} images={} accepted={} queries_per_image={} log={:016x}", wseed, n_images, accepted, queries.len(), d.finish());
    0
}
