//! Independent layout calculator for cache format version 1, written from the format
//! description in the crate documentation (src/cache/mod.rs:1-34), not from the parser:
//! 24-byte header; 28 bytes per class; 36 bytes per member; 36 bytes per by-params member;
//! every section padded to an 8-byte boundary; then the string bytes.

pub const HEADER_LEN: usize = 24;
pub const CLASS_LEN: usize = 28;
pub const MEMBER_LEN: usize = 36;
pub const MAGIC: u32 = u32::from_le_bytes(*b"PRGC");

#[derive(Clone, Copy, Debug, PartialEq, Eq)]
pub struct Header {
    pub magic: u32,
    pub version: u32,
    pub num_classes: u32,
    pub num_members: u32,
    pub num_members_by_params: u32,
    pub string_bytes: u32,
}

pub fn rd32(b: &[u8], off: usize) -> u32 {
    u32::from_le_bytes(b[off..off + 4].try_into().unwrap())
}
pub fn wr32(b: &mut [u8], off: usize, v: u32) {
    b[off..off + 4].copy_from_slice(&v.to_le_bytes());
}

impl Header {
    pub fn read(b: &[u8]) -> Option<Header> {
        if b.len() < HEADER_LEN {
            return None;
        }
        Some(Header {
            magic: rd32(b, 0),
            version: rd32(b, 4),
            num_classes: rd32(b, 8),
            num_members: rd32(b, 12),
            num_members_by_params: rd32(b, 16),
            string_bytes: rd32(b, 20),
        })
    }
}

fn align8(x: u128) -> u128 {
    (x + 7) & !7
}

/// Section boundaries (u128 so that absurd header counts cannot overflow the calculator).
#[derive(Clone, Copy, Debug)]
pub struct Layout {
    pub classes_start: u128,
    pub classes_end: u128,
    pub members_start: u128,
    pub members_end: u128,
    pub by_params_start: u128,
    pub by_params_end: u128,
    pub strings_start: u128,
    pub strings_end: u128,
}

impl Layout {
    pub fn of(h: &Header) -> Layout {
        let classes_start = align8(HEADER_LEN as u128);
        let classes_end = classes_start + CLASS_LEN as u128 * h.num_classes as u128;
        let members_start = align8(classes_end);
        let members_end = members_start + MEMBER_LEN as u128 * h.num_members as u128;
        let by_params_start = align8(members_end);
        let by_params_end = by_params_start + MEMBER_LEN as u128 * h.num_members_by_params as u128;
        let strings_start = align8(by_params_end);
        let strings_end = strings_start + h.string_bytes as u128;
        Layout {
            classes_start,
            classes_end,
            members_start,
            members_end,
            by_params_start,
            by_params_end,
            strings_start,
            strings_end,
        }
    }

    pub fn total_len(&self) -> u128 {
        self.strings_end
    }

    /// Is byte offset `off` inside inter-section padding?
    pub fn in_padding(&self, off: u128) -> bool {
        (off >= self.classes_end && off < self.members_start)
            || (off >= self.members_end && off < self.by_params_start)
            || (off >= self.by_params_end && off < self.strings_start)
    }

    /// Which error kinds does the documented layout allow for a buffer of `len` bytes that is
    /// shorter than the header declares? Empty = the buffer is long enough. A cut that lands in
    /// the padding between two sections may be attributed to either neighbour.
    pub fn short_kinds(&self, len: u128) -> Vec<&'static str> {
        if len < HEADER_LEN as u128 {
            return vec!["InvalidHeader"];
        }
        if len < self.classes_end {
            return vec!["InvalidClasses"];
        }
        if len < self.members_start {
            return vec!["InvalidClasses", "InvalidMembers"];
        }
        if len < self.by_params_end {
            // members, the padding between the two member sections, and the by-params section
            // all belong to "member data"
            return vec!["InvalidMembers"];
        }
        if len < self.strings_start {
            return vec!["InvalidMembers", "UnexpectedStringBytes"];
        }
        if len < self.strings_end {
            return vec!["UnexpectedStringBytes"];
        }
        Vec::new()
    }

    pub fn section_of(&self, off: u128) -> &'static str {
        if off < HEADER_LEN as u128 {
            "header"
        } else if off < self.classes_end {
            "classes"
        } else if off < self.members_start {
            "pad1"
        } else if off < self.members_end {
            "members"
        } else if off < self.by_params_start {
            "pad2"
        } else if off < self.by_params_end {
            "by_params"
        } else if off < self.strings_start {
            "pad3"
        } else {
            "strings"
        }
    }
}
