//! One rendering of every query answer, instantiated for both copies of the crate:
//! `cur` = /repo working tree, `pin` = frozen snapshot of the pinned release.
//! Answers are canonical strings so that they can be compared, hashed and replayed.

use crate::universe::Query;

/// 8-byte aligned owned byte buffer: `ProguardCache::parse` derives section padding from the
/// *address* of the buffer, so alignment is fixed by the harness (it is not part of any property).
pub struct AlignedBuf {
    words: Vec<u64>,
    len: usize,
}

impl AlignedBuf {
    pub fn new(bytes: &[u8]) -> Self {
        let mut words = vec![0u64; (bytes.len() + 7) / 8 + 1];
        // SAFETY: u64 storage is valid for byte writes; len <= capacity in bytes
        let dst = unsafe { std::slice::from_raw_parts_mut(words.as_mut_ptr() as *mut u8, bytes.len()) };
        dst.copy_from_slice(bytes);
        AlignedBuf { words, len: bytes.len() }
    }
    pub fn as_slice(&self) -> &[u8] {
        // SAFETY: see `new`
        unsafe { std::slice::from_raw_parts(self.words.as_ptr() as *const u8, self.len) }
    }
    pub fn as_mut_slice(&mut self) -> &mut [u8] {
        // SAFETY: see `new`
        unsafe { std::slice::from_raw_parts_mut(self.words.as_mut_ptr() as *mut u8, self.len) }
    }
    /// Shrink the visible length (a torn file); storage stays aligned.
    pub fn truncate(&mut self, len: usize) {
        assert!(len <= self.len);
        self.len = len;
    }
    pub fn len(&self) -> usize {
        self.len
    }
}

macro_rules! impl_api {
    ($modname:ident, $p:ident) => {
        pub mod $modname {
            use super::Query;
            use std::fmt::Write as _;
            pub use $p::{
                CacheErrorKind, ProguardCache, ProguardMapper, ProguardMapping, StackFrame, StackTrace, Throwable,
            };

            /// Serialise a mapping into a plain Vec (the canonical bytes of this release).
            pub fn write_cache(mapping: &[u8]) -> Vec<u8> {
                let m = ProguardMapping::new(mapping);
                let mut out = Vec::new();
                ProguardCache::write(&m, &mut out).expect("writing to a Vec cannot fail");
                out
            }

            /// Variant name of a parse error (payloads are not compared).
            pub fn kind_name(k: CacheErrorKind) -> &'static str {
                match k {
                    CacheErrorKind::WrongEndianness => "WrongEndianness",
                    CacheErrorKind::WrongFormat => "WrongFormat",
                    CacheErrorKind::WrongVersion => "WrongVersion",
                    CacheErrorKind::InvalidHeader => "InvalidHeader",
                    CacheErrorKind::InvalidClasses => "InvalidClasses",
                    CacheErrorKind::InvalidMembers => "InvalidMembers",
                    CacheErrorKind::UnexpectedStringBytes { .. } => "UnexpectedStringBytes",
                    _ => "Other",
                }
            }

            pub fn parse_kind(buf: &[u8]) -> Result<(), &'static str> {
                match ProguardCache::parse(buf) {
                    Ok(_) => Ok(()),
                    Err(e) => Err(kind_name(e.kind())),
                }
            }

            fn render_frame(out: &mut String, f: &StackFrame<'_>, visit: &mut dyn FnMut(&str)) {
                visit(f.class());
                visit(f.method());
                if let Some(x) = f.file() {
                    visit(x);
                }
                if let Some(x) = f.parameters() {
                    visit(x);
                }
                let _ = write!(
                    out,
                    "[{}|{}|{:?}|{}|{:?}]",
                    f.class(),
                    f.method(),
                    f.file(),
                    f.line(),
                    f.parameters()
                );
            }

            fn visit_trace(t: &StackTrace<'_>, visit: &mut dyn FnMut(&str)) {
                if let Some(e) = t.exception() {
                    visit(e.class());
                    if let Some(m) = e.message() {
                        visit(m);
                    }
                }
                for f in t.frames() {
                    visit(f.class());
                    visit(f.method());
                    if let Some(x) = f.file() {
                        visit(x);
                    }
                    if let Some(x) = f.parameters() {
                        visit(x);
                    }
                }
                if let Some(c) = t.cause() {
                    visit_trace(c, visit);
                }
            }

            /// Answer `q` on a parsed cache. `visit` sees every borrowed `&str` the library returned.
            pub fn answer_cache_with<'a>(c: &'a ProguardCache<'a>, q: &'a Query, visit: &mut dyn FnMut(&str)) -> String {
                answer_cache_stepped(c, q, visit, &mut || false)
            }

            /// `step` is called between successive `next()` calls of a frame iterator (a scheduling point).
            pub fn answer_cache_stepped<'a>(
                c: &'a ProguardCache<'a>,
                q: &'a Query,
                visit: &mut dyn FnMut(&str),
                step: &mut dyn FnMut() -> bool,
            ) -> String {
                let mut out = String::new();
                match q {
                    Query::Class(name) => {
                        let r = c.remap_class(name);
                        if let Some(s) = r {
                            visit(s);
                        }
                        let _ = write!(out, "{:?}", r);
                    }
                    Query::Method(class, method) => {
                        let r = c.remap_method(class, method);
                        if let Some((a, b)) = r {
                            visit(a);
                            visit(b);
                        }
                        let _ = write!(out, "{:?}", r);
                    }
                    Query::FrameLine { class, method, line, file } => {
                        let f = match file {
                            Some(file) => StackFrame::with_file(class, method, *line, file),
                            None => StackFrame::new(class, method, *line),
                        };
                        let mut it = c.remap_frame(&f);
                        loop {
                            if step() {
                                // fork: a clone of the half-consumed iterator is drained; the original must not notice
                                let forked = it.clone();
                                let _ = forked.count();
                            }
                            match it.next() {
                                Some(fr) => render_frame(&mut out, &fr, visit),
                                None => break,
                            }
                        }
                    }
                    Query::FrameParams { class, method, params } => {
                        let f = StackFrame::with_parameters(class, method, params);
                        let mut it = c.remap_frame(&f);
                        loop {
                            if step() {
                                // fork: a clone of the half-consumed iterator is drained; the original must not notice
                                let forked = it.clone();
                                let _ = forked.count();
                            }
                            match it.next() {
                                Some(fr) => render_frame(&mut out, &fr, visit),
                                None => break,
                            }
                        }
                    }
                    Query::Throwable { class, msg } => {
                        let t = match msg {
                            Some(m) => Throwable::with_message(class, m),
                            None => Throwable::new(class),
                        };
                        let r = c.remap_throwable(&t);
                        if let Some(t) = &r {
                            visit(t.class());
                            if let Some(m) = t.message() {
                                visit(m);
                            }
                        }
                        let _ = write!(out, "{:?}", r);
                    }
                    Query::TraceText(text) => {
                        let _ = write!(out, "{:?}", c.remap_stacktrace(text));
                    }
                    Query::TraceTyped(text) => match StackTrace::try_parse(text.as_bytes()) {
                        None => out.push_str("unparsed"),
                        Some(t) => {
                            let r = c.remap_stacktrace_typed(&t);
                            visit_trace(&r, visit);
                            let _ = write!(out, "{:?}", r);
                        }
                    },
                    Query::Signature(sig) => match c.deobfuscate_signature(sig) {
                        None => out.push_str("None"),
                        Some(s) => {
                            let _ = write!(
                                out,
                                "{}|{:?}|{}",
                                s.format_signature(),
                                s.parameters_types().collect::<Vec<_>>(),
                                s.return_type()
                            );
                        }
                    },
                    Query::MapUuid | Query::MapSummary | Query::MapHasLineInfo | Query::MapIsValid | Query::MapSection(_) => out.push_str("n/a"),
                }
                out
            }

            pub fn answer_cache<'a>(c: &'a ProguardCache<'a>, q: &'a Query) -> String {
                answer_cache_with(c, q, &mut |_| {})
            }

            /// Same rendering for the in-memory mapper.
            pub fn answer_mapper<'a>(m: &'a ProguardMapper<'a>, q: &'a Query) -> String {
                answer_mapper_stepped(m, q, &mut || false)
            }

            pub fn answer_mapper_stepped<'a>(m: &'a ProguardMapper<'a>, q: &'a Query, step: &mut dyn FnMut() -> bool) -> String {
                let mut out = String::new();
                let visit: &mut dyn FnMut(&str) = &mut |_| {};
                match q {
                    Query::Class(name) => {
                        let _ = write!(out, "{:?}", m.remap_class(name));
                    }
                    Query::Method(class, method) => {
                        let _ = write!(out, "{:?}", m.remap_method(class, method));
                    }
                    Query::FrameLine { class, method, line, file } => {
                        let f = match file {
                            Some(file) => StackFrame::with_file(class, method, *line, file),
                            None => StackFrame::new(class, method, *line),
                        };
                        let mut it = m.remap_frame(&f);
                        loop {
                            if step() {
                                // fork: a clone of the half-consumed iterator is drained; the original must not notice
                                let forked = it.clone();
                                let _ = forked.count();
                            }
                            match it.next() {
                                Some(fr) => render_frame(&mut out, &fr, visit),
                                None => break,
                            }
                        }
                    }
                    Query::FrameParams { class, method, params } => {
                        let f = StackFrame::with_parameters(class, method, params);
                        let mut it = m.remap_frame(&f);
                        loop {
                            if step() {
                                // fork: a clone of the half-consumed iterator is drained; the original must not notice
                                let forked = it.clone();
                                let _ = forked.count();
                            }
                            match it.next() {
                                Some(fr) => render_frame(&mut out, &fr, visit),
                                None => break,
                            }
                        }
                    }
                    Query::Throwable { class, msg } => {
                        let t = match msg {
                            Some(x) => Throwable::with_message(class, x),
                            None => Throwable::new(class),
                        };
                        let _ = write!(out, "{:?}", m.remap_throwable(&t));
                    }
                    Query::TraceText(text) => {
                        let _ = write!(out, "{:?}", m.remap_stacktrace(text));
                    }
                    Query::TraceTyped(text) => match StackTrace::try_parse(text.as_bytes()) {
                        None => out.push_str("unparsed"),
                        Some(t) => {
                            let _ = write!(out, "{:?}", m.remap_stacktrace_typed(&t));
                        }
                    },
                    Query::Signature(sig) => match m.deobfuscate_signature(sig) {
                        None => out.push_str("None"),
                        Some(s) => {
                            let _ = write!(
                                out,
                                "{}|{:?}|{}",
                                s.format_signature(),
                                s.parameters_types().collect::<Vec<_>>(),
                                s.return_type()
                            );
                        }
                    },
                    Query::MapUuid | Query::MapSummary | Query::MapHasLineInfo | Query::MapIsValid | Query::MapSection(_) => out.push_str("n/a"),
                }
                out
            }
        }
    };
}

impl_api!(cur, proguard);
impl_api!(pin, proguard_pinned);


/// Queries on the shared `ProguardMapping` handle (working tree only; `uuid` feature is on).
pub fn answer_mapping(m: &proguard::ProguardMapping<'_>, q: &Query) -> String {
    match q {
        Query::MapUuid => m.uuid().to_string(),
        Query::MapSummary => {
            let s = m.summary();
            format!("{:?}|{:?}|{:?}|{}|{}", s.compiler(), s.compiler_version(), s.min_api(), s.class_count(), s.method_count())
        }
        Query::MapHasLineInfo => m.has_line_info().to_string(),
        Query::MapIsValid => m.is_valid().to_string(),
        Query::MapSection(k) => {
            let sec = m.section(0..*k);
            let s = sec.summary();
            format!(
                "{:?}|{:?}|{:?}|{}|{}|{}|{}|{}",
                s.compiler(),
                s.compiler_version(),
                s.min_api(),
                s.class_count(),
                s.method_count(),
                sec.has_line_info(),
                sec.is_valid(),
                sec.uuid()
            )
        }
        _ => "n/a".into(),
    }
}
