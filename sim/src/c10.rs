//! C10 — version-1 cache files mean the same to every release that accepts them.
//! Seam: release identity. Two copies of the crate live in this binary: `cur` (working tree)
//! and `pin` (frozen snapshot of the pinned release). The simulated world is a small deployment:
//! a durable blob store, a writer role and a reader role, each running one of the two releases,
//! and a seeded history of deploy / write / read / rollback events.

use crate::api::{cur, pin, AlignedBuf};
use crate::common::*;
use crate::gen;
use crate::rng::{digest_bytes, run_seed, Digest, Rng};
use crate::universe::{universe, Query, UniCfg};
use serde_json::{json, Value};

#[derive(Clone, Copy, Debug, PartialEq, Eq)]
pub enum Rel {
    Pinned,
    Current,
}

impl Rel {
    pub fn name(self) -> &'static str {
        match self {
            Rel::Pinned => "pinned-5.5.0",
            Rel::Current => "current-tree",
        }
    }
    pub fn other(self) -> Rel {
        match self {
            Rel::Pinned => Rel::Current,
            Rel::Current => Rel::Pinned,
        }
    }
    pub fn from_name(s: &str) -> Option<Rel> {
        match s {
            "pinned-5.5.0" => Some(Rel::Pinned),
            "current-tree" => Some(Rel::Current),
            _ => None,
        }
    }
}

pub fn write_with(rel: Rel, mapping: &[u8]) -> Result<Vec<u8>, String> {
    match rel {
        Rel::Pinned => guarded(|| pin::write_cache(mapping)),
        Rel::Current => guarded(|| cur::write_cache(mapping)),
    }
}

/// Outcome of one release reading one blob: rejected (kind) or one answer per query
/// (`Err(panic)` for a query on which that reader panicked).
pub enum ReadOutcome {
    Rejected(&'static str),
    ParsePanic(String),
    Answers(Vec<Result<String, String>>),
}

pub fn read_with(rel: Rel, blob: &AlignedBuf, queries: &[Query]) -> ReadOutcome {
    let buf = blob.as_slice();
    match rel {
        Rel::Pinned => match guarded(|| pin::ProguardCache::parse(buf)) {
            Err(p) => ReadOutcome::ParsePanic(p),
            Ok(Err(e)) => ReadOutcome::Rejected(pin::kind_name(e.kind())),
            Ok(Ok(c)) => ReadOutcome::Answers(queries.iter().map(|q| guarded(|| pin::answer_cache(&c, q))).collect()),
        },
        Rel::Current => match guarded(|| cur::ProguardCache::parse(buf)) {
            Err(p) => ReadOutcome::ParsePanic(p),
            Ok(Err(e)) => ReadOutcome::Rejected(cur::kind_name(e.kind())),
            Ok(Ok(c)) => ReadOutcome::Answers(queries.iter().map(|q| guarded(|| cur::answer_cache(&c, q))).collect()),
        },
    }
}

fn qkind(q: &Query) -> &'static str {
    match q {
        Query::Class(_) => "remap_class",
        Query::Method(..) => "remap_method",
        Query::FrameLine { .. } => "remap_frame_by_line",
        Query::FrameParams { .. } => "remap_frame_by_params",
        Query::Throwable { .. } => "remap_throwable",
        Query::TraceText(_) => "remap_stacktrace",
        Query::TraceTyped(_) => "remap_stacktrace_typed",
        Query::Signature(_) => "deobfuscate_signature",
        _ => "other",
    }
}

/// The oracle for one blob: the *other* release must reject with WrongVersion or answer every
/// primitive query exactly like the writer's own release reading the same bytes.
pub fn judge_blob(writer: Rel, blob: &AlignedBuf, queries: &[Query], st: &mut Stats) -> Option<(String, String, Option<Query>)> {
    let own = read_with(writer, blob, queries);
    let other = read_with(writer.other(), blob, queries);
    st.inc(&format!("pair.writer={}.reader={}", writer.name(), writer.other().name()));
    let own_answers = match own {
        ReadOutcome::Answers(a) => a,
        ReadOutcome::Rejected(k) => {
            st.inc("control.own_release_rejects_its_own_file");
            let _ = k;
            return None; // not a cross-release statement
        }
        ReadOutcome::ParsePanic(_) => {
            st.inc("control.own_release_parse_panic");
            return None;
        }
    };
    match other {
        ReadOutcome::Rejected("WrongVersion") => {
            st.inc("other_release_rejected_wrong_version");
            None
        }
        ReadOutcome::Rejected(k) => Some((
            format!("cross-release-rejected kind={} writer={}", k, writer.name()),
            format!("a file written by {} is rejected by {} with {} (only WrongVersion is allowed)", writer.name(), writer.other().name(), k),
            None,
        )),
        ReadOutcome::ParsePanic(p) => Some((
            format!("cross-release-parse-panic writer={}", writer.name()),
            format!("parse of a file written by {} panicked in {}: {}", writer.name(), writer.other().name(), p),
            None,
        )),
        ReadOutcome::Answers(other_answers) => {
            st.inc("other_release_accepted");
            for (i, q) in queries.iter().enumerate() {
                st.inc("queries_compared");
                // answers of the pinned release are the reference; skip queries on which it panics
                let (pinned, current) = if writer == Rel::Pinned { (&own_answers[i], &other_answers[i]) } else { (&other_answers[i], &own_answers[i]) };
                match (pinned, current) {
                    (Err(_), _) => st.inc("skipped_pinned_reader_panics"),
                    (Ok(a), Ok(b)) if a == b => {
                        if !a.is_empty() && a != "None" {
                            st.inc("queries_with_nonempty_answer");
                        }
                    }
                    (Ok(a), Ok(b)) => {
                        return Some((
                            format!("answers-differ writer={} query={}", writer.name(), qkind(q)),
                            format!("file written by {}: {} -> pinned reader {:?}, current reader {:?}", writer.name(), q.describe(), a, b),
                            Some(q.clone()),
                        ))
                    }
                    (Ok(a), Err(p)) => {
                        return Some((
                            format!("current-reader-panics writer={} query={}", writer.name(), qkind(q)),
                            format!("file written by {}: {} -> pinned reader {:?}, current reader panicked: {}", writer.name(), q.describe(), a, p),
                            Some(q.clone()),
                        ))
                    }
                }
            }
            None
        }
    }
}

// ---------------------------------------------------------------------------------------------
// the simulated deployment history

#[derive(Clone, Debug)]
enum Event {
    DeployWriter(Rel),
    DeployReader(Rel),
    Write(usize),
    Read(usize),
}

struct Blob {
    mapping: usize,
    writer: Rel,
    bytes: Vec<u8>,
}

fn simulate_history(run: u64, rng: &mut Rng, mappings: &[Vec<u8>], uni: &UniCfg, st: &mut Stats, vs: &mut Vec<Violation>, sample: bool) {
    let universes: Vec<Vec<Query>> = mappings.iter().map(|m| universe(m, rng, uni)).collect();
    let mut writer = if rng.chance(1, 2) { Rel::Pinned } else { Rel::Current };
    let mut reader = if rng.chance(1, 2) { Rel::Pinned } else { Rel::Current };
    let mut store: Vec<Blob> = Vec::new();
    let mut log = Digest::default();
    let mut trace: Vec<String> = Vec::new();
    let n_events = rng.range(6, 18);
    let mut events: Vec<Event> = Vec::new();
    for _ in 0..n_events {
        events.push(match rng.below(10) {
            0 => Event::DeployWriter(writer.other()),
            1 => Event::DeployReader(reader.other()),
            2 => Event::DeployReader(writer),
            3..=5 => Event::Write(rng.usize_below(mappings.len())),
            _ => Event::Read(rng.usize_below(8)),
        });
        // keep the release variables moving for the next draw
        if let Some(Event::DeployWriter(r)) = events.last() {
            writer = *r;
        }
        if let Some(Event::DeployReader(r)) = events.last() {
            reader = *r;
        }
    }
    // final audit: every mapping written once by each release (so that every (writer, reader) pair
    // and every file is covered whatever the random history did)
    for m in 0..mappings.len() {
        for r in [Rel::Pinned, Rel::Current] {
            events.push(Event::DeployWriter(r));
            events.push(Event::Write(m));
        }
    }
    let mut audited: Vec<(usize, Rel)> = Vec::new();
    for ev in &events {
        match ev {
            Event::DeployWriter(r) => {
                writer = *r;
                st.inc("event.deploy_writer");
                trace.push(format!("deploy writer={}", r.name()));
            }
            Event::DeployReader(r) => {
                reader = *r;
                st.inc("event.deploy_reader");
                trace.push(format!("deploy reader={}", r.name()));
            }
            Event::Write(m) => {
                st.inc("event.write");
                match write_with(writer, &mappings[*m]) {
                    Ok(bytes) => {
                        log.u64(digest_bytes(&bytes));
                        trace.push(format!("write mapping#{} by {} -> {}B", m, writer.name(), bytes.len()));
                        store.push(Blob { mapping: *m, writer, bytes });
                    }
                    Err(_) => st.inc("control.writer_panicked"),
                }
            }
            Event::Read(j) => {
                if store.is_empty() {
                    continue;
                }
                st.inc("event.read");
                let b = &store[*j % store.len()];
                trace.push(format!("read blob(mapping#{} by {}) with reader={}", b.mapping, b.writer.name(), reader.name()));
                if reader == b.writer || audited.contains(&(b.mapping, b.writer)) {
                    st.inc("read.same_release_or_already_compared");
                    continue;
                }
                audited.push((b.mapping, b.writer));
                let blob = AlignedBuf::new(&b.bytes);
                if let Some((class, message, q)) = judge_blob(b.writer, &blob, &universes[b.mapping], st) {
                    log.str(&class);
                    if vs.len() < 8 {
                        vs.push(Violation {
                            property: "C10".into(),
                            run,
                            class,
                            message,
                            case: json!({"mapping": bytes_to_json(&mappings[b.mapping]), "writer": b.writer.name(), "query": q.map(|q| q.to_json()), "history": trace.clone()}),
                        });
                    }
                }
            }
        }
    }
    // audit every blob not yet compared across releases
    for b in &store {
        if audited.contains(&(b.mapping, b.writer)) {
            continue;
        }
        audited.push((b.mapping, b.writer));
        let blob = AlignedBuf::new(&b.bytes);
        if let Some((class, message, q)) = judge_blob(b.writer, &blob, &universes[b.mapping], st) {
            log.str(&class);
            if vs.len() < 8 {
                vs.push(Violation {
                    property: "C10".into(),
                    run,
                    class,
                    message,
                    case: json!({"mapping": bytes_to_json(&mappings[b.mapping]), "writer": b.writer.name(), "query": q.map(|q| q.to_json()), "history": trace.clone()}),
                });
            }
        }
    }
    for (m, u) in mappings.iter().zip(universes.iter()) {
        st.keyed_max(digest_bytes(m), 2 * u.len() as u64);
    }
    st.add("files_written", store.len() as u64);
    if sample {
        st.samples.push(json!({"history": trace, "mappings": mappings.len(), "queries_per_mapping": universes.iter().map(|u| u.len()).collect::<Vec<_>>(),
            "mapping_head": String::from_utf8_lossy(&mappings[0][..mappings[0].len().min(120)])}));
    }
    st.run_done(log.finish());
}

// ---------------------------------------------------------------------------------------------

const UNI_MIN: UniCfg = UniCfg { lines_full: true, cap: 200_000, compound: true };

fn find_violation(mapping: &[u8], class: &str) -> Option<(Rel, String, Option<Query>)> {
    let mut rng = Rng::new(1);
    let big = UniCfg { lines_full: false, cap: 40_000, compound: true };
    let queries = universe(mapping, &mut rng, if mapping.len() > 200_000 { &big } else { &UNI_MIN });
    let mut st = Stats::default();
    for w in [Rel::Pinned, Rel::Current] {
        let Ok(bytes) = write_with(w, mapping) else { continue };
        let blob = AlignedBuf::new(&bytes);
        if let Some((c, m, q)) = judge_blob(w, &blob, &queries, &mut st) {
            if c == class {
                return Some((w, m, q));
            }
        }
    }
    None
}

pub fn minimise(v: &Violation) -> Violation {
    start_minimise_clock(40);
    let Some(mapping) = bytes_from_json(&v.case["mapping"]) else { return v.clone() };
    let class = v.class.clone();
    if mapping.len() > 1_000_000 || find_violation(&mapping, &class).is_none() {
        // (a multi-megabyte mapping is reported as found: each ddmin step would cost seconds)
        return v.clone();
    }
    let mut budget = 300usize;
    let lines = split_lines(&mapping);
    let min_lines = ddmin(&lines, &mut budget, &mut |ls| find_violation(&join_lines(ls), &class).is_some());
    let m = join_lines(&min_lines);
    match find_violation(&m, &class) {
        Some((w, message, q)) => {
            let bytes = write_with(w, &m).unwrap_or_default();
            Violation {
                property: "C10".into(),
                run: v.run,
                class,
                message,
                case: json!({
                    "mapping": bytes_to_json(&m), "writer": w.name(), "query": q.map(|q| q.to_json()),
                    "file": {"hex": hex::encode(bytes)}, "minimised_from": {"mapping_bytes": mapping.len()}, "history": v.case["history"],
                }),
            }
        }
        None => v.clone(),
    }
}

pub fn replay(doc: &Value) -> i32 {
    let case = &doc["case"];
    let (Some(mapping), Some(writer)) = (bytes_from_json(&case["mapping"]), case["writer"].as_str().and_then(Rel::from_name)) else {
        eprintln!("replay: malformed C10 case");
        return 2;
    };
    let queries: Vec<Query> = match case.get("query").and_then(Query::from_json) {
        Some(q) => vec![q],
        None => {
            let mut rng = Rng::new(1);
            universe(&mapping, &mut rng, &UNI_MIN)
        }
    };
    let Ok(bytes) = write_with(writer, &mapping) else {
        println!("writer panicked");
        return 2;
    };
    println!("replay C10: writer={} file={}B queries={}", writer.name(), bytes.len(), queries.len());
    let blob = AlignedBuf::new(&bytes);
    let mut st = Stats::default();
    match judge_blob(writer, &blob, &queries, &mut st) {
        Some((class, msg, _)) => {
            println!("reproduced: class={} :: {}", class, msg);
            1
        }
        None => {
            println!("not reproduced: the property holds on this case");
            0
        }
    }
}

pub fn main(env: &Env) -> i32 {
    let mut rep = Report::new("C10", "exploration", env);
    rep.expected_probes = vec!["event.deploy_writer", "event.deploy_reader", "event.write", "event.read", "read.same_release_or_already_compared", "other_release_accepted", "queries_with_nonempty_answer", "pair.writer=pinned-5.5.0.reader=current-tree", "pair.writer=current-tree.reader=pinned-5.5.0"];
    rep.real.push("proguard_pinned: byte-for-byte copy of the pinned release's sources (f3fcb84), real code".into());
    rep.stubs = vec!["simulated deployment: blob store + writer/reader roles whose release is switched by deploy/rollback events".into()];
    rep.assumptions = vec![
        "files are immutable and readers stateless, so a history reduces to the (writer release, reader release, file, query) tuples it contains; the history generator covers upgrade / rollback / mixed-fleet orders".into(),
        "all query kinds are compared 'query for query': remap_class, remap_method, remap_frame by line and by parameters, remap_throwable, remap_stacktrace (text), remap_stacktrace_typed, deobfuscate_signature (the first design compared primitive lookups only; a reader change confined to the text API was then invisible, see DESIGN.md 11)".into(),
        "queries on which the pinned reader itself panics are skipped (counted)".into(),
    ];
    let seed = env.seed;
    let thorough = env.thorough;
    let n = if thorough { env.scaled(1_500_000) } else { env.scaled(6000) };
    let corpus = gen::corpus(thorough);
    let uni = UniCfg { lines_full: !thorough, cap: if thorough { 2500 } else { 4000 }, compound: true };
    rep.rule = format!(
        "{} seeded histories, each over 1..3 generated mappings (0..{} classes x 0..{} members) with 6..18 deploy/write/read events plus a final audit that writes every mapping with both releases and reads it with the other one; {} corpus files likewise, plus huge generated mappings (> 65 536 classes and members; 40 000 sampled queries each) and one mapping whose single lookups match 5 000 entries (deep inline chain, overloads). \
         Every cross-release read compares the full query universe of the mapping (all names + near misses x lines 0..66, range boundaries +-1, the same shifted by multiples of 2^32, extremes; throwables, text and typed traces in usual and unusual shapes, signatures; cap {} per mapping). \
         distinct_nontrivial = sum over distinct mappings of 2 x (queries in its universe) = distinct (writer release, file, query) comparisons.",
        n,
        if thorough { 20 } else { 10 },
        if thorough { 16 } else { 10 },
        corpus.len(),
        uni.cap
    );
    let n_huge = if thorough { 3 } else { 2 };
    let n_total = n + corpus.len() as u64 + n_huge;
    let (st, mut vs) = run_indexed(n_total, env.workers, 1, |i, st, vs| {
        let mut rng = Rng::new(run_seed(seed, "C10", i));
        if i >= n + corpus.len() as u64 {
            // scale: > 65 536 classes and members in one file; the last one instead has single lookups
            // that match > 4096 entries (a deep inline chain, thousands of overloads)
            let m = if i + 1 == n_total && n_huge > 1 || (n_huge == 1 && false) { gen::gen_deep(5000) } else { gen::gen_huge(&mut rng) };
            let big = UniCfg { lines_full: false, cap: 40_000, compound: true };
            simulate_history(i, &mut rng, &[m], &big, st, vs, false);
        } else if i < n {
            let k = rng.range(1, 3);
            let mappings: Vec<Vec<u8>> = (0..k).map(|_| if thorough { gen::gen_case(&mut rng, 20, 16).1 } else { gen::gen_case(&mut rng, 10, 10).1 }).collect();
            simulate_history(i, &mut rng, &mappings, &uni, st, vs, i < 2);
        } else {
            let (_, m) = &corpus[(i - n) as usize];
            let big = UniCfg { lines_full: false, cap: if m.len() > 500_000 { 60_000 } else { 30_000 }, compound: true };
            simulate_history(i, &mut rng, &[m.clone()], &big, st, vs, false);
        }
    });
    for k in ["control.own_release_rejects_its_own_file", "control.own_release_parse_panic", "control.writer_panicked"] {
        if st.get(k) > 0 {
            println!("note: {} = {} (control failure inside one release; not a cross-release verdict)", k, st.get(k));
        }
    }
    let vs: Vec<Violation> = vs.drain(..).take(3).map(|v| minimise(&v)).collect();
    rep.write(&st, st.get("queries_compared").max(1), st.keyed_sum(), vs.len(), None);
    println!(
        "C10 {}: histories={} files={} cross_release_reads_accepted={} rejected_wrong_version={} queries_compared={} nonempty={} digest={:016x}",
        env.tier(),
        st.runs,
        st.get("files_written"),
        st.get("other_release_accepted"),
        st.get("other_release_rejected_wrong_version"),
        st.get("queries_compared"),
        st.get("queries_with_nonempty_answer"),
        st.digest_sum
    );
    conclude("C10", "releases", seed, &vs)
}
