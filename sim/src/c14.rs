//! C14 — cache serialisation is a deterministic function of the mapping bytes.
//! Hidden inputs owned by the simulator: process hash entropy (LD_PRELOAD getrandom shim seeded by
//! VERIF_HASH_SEED), heap addresses (ASLR off + seeded heap perturbation), write history of the
//! process/thread (seeded processing order), thread interleaving (baton scheduler; Miri).

use crate::api::cur;
use crate::common::*;
use crate::gen;
use crate::layout::{Header, Layout, HEADER_LEN};
use crate::rng::{digest_bytes, run_seed, Digest, Rng};
use crate::sched::{Baton, Participant, Policy};
use serde_json::{json, Value};
use std::collections::{BTreeMap, HashSet};
use std::io::Write;
use std::process::Command;

fn shim_path() -> String {
    format!("{}/build/getrandom_shim.so", verif_dir())
}

/// A same-length variant of a mapping (different content, identical byte length), if one exists.
pub fn same_length_variant(m: &[u8]) -> Option<Vec<u8>> {
    let t = std::str::from_utf8(m).ok()?;
    let v = t.replace("com.example", "org.exampel").replace("kotlin.jvm", "kotlin.vmj").replace("org.x.Y", "org.y.X").replace("void ", "long ");
    if v != t && v.len() == t.len() {
        Some(v.into_bytes())
    } else {
        None
    }
}

/// The mapping list of a batch: a pure function of (batch_seed, n); corpus files appended.
/// Also returns the (index, index) pairs of equal-length siblings.
pub fn batch_mappings(batch_seed: u64, n: u64, corpus: bool, large: bool, mass: bool) -> (Vec<Vec<u8>>, Vec<(usize, usize)>) {
    let mut v: Vec<Vec<u8>> = (0..n)
        .map(|i| {
            let mut rng = Rng::new(run_seed(batch_seed, "C14.mapping", i));
            gen::gen_case(&mut rng, 12, 12).1
        })
        .collect();
    // hand-written shapes that matter for hash-order ties and for the length formula
    v.push(b"x.A -> a:\n    1:1:void foo(int) -> m\n    2:2:void bar(int) -> m\n    3:3:void baz(int) -> m\n    4:4:void qux(int) -> m\n    void foo(int) -> m\n".to_vec());
    v.push(b"x.A -> a:\n    1:1:void f() -> m\nx.B -> a:\n    void g() -> n\n    void h() -> o\n".to_vec());
    v.push(b"    1:1:void orphan() -> m\nx.A -> a:\n    void g() -> n\n".to_vec());
    if n > 0 {
        // one big generated mapping (> 8192 records): size-dependent code paths
        let mut rng = Rng::new(run_seed(batch_seed, "C14.big", 0));
        let cfg = gen::GenCfg { max_classes: 420, max_members: 44, pct_long_name: 1, pct_noise: 1, class_pool: 16, ..gen::GenCfg::swarm(&mut rng, 10, 10) };
        v.push(gen::gen_mapping(&mut rng, &cfg));
        // one huge mapping (> 65 536 classes and members; 150 000 classes in the thorough tier, where
        // 16 writers hold their string tables at the same time: process-wide budgets / pools)
        v.push(if mass { gen::gen_huge_n(&mut rng, 150_000) } else { gen::gen_huge(&mut rng) });
        // one class with > 65 536 distinct methods (collisions in truncated fingerprints / hashes)
        {
            let mut m: Vec<u8> = b"com.example.VeryWide -> vw:\n".to_vec();
            for k in 0..(66_000 + rng.range(0, 2000)) {
                m.extend_from_slice(format!("    void method{}(int,T{}) -> m{}\n", k, k % 977, k % 40_000).as_bytes());
            }
            v.push(m);
        }
        // and one with wide classes (> 64 distinct methods per class)
        let cfg = gen::GenCfg { max_classes: 6, max_members: 10, pct_wide_class: 60, class_pool: 16, ..gen::GenCfg::swarm(&mut rng, 10, 10) };
        v.push(gen::gen_mapping(&mut rng, &cfg));
    }
    if corpus {
        for (_, b) in gen::corpus(large) {
            v.push(b);
        }
    }
    // equal-length siblings for every 6th mapping that has one
    let mut pairs = Vec::new();
    let base = v.len();
    for i in (0..base).step_by(6) {
        if v[i].len() < 50_000 {
            if let Some(var) = same_length_variant(&v[i]) {
                pairs.push((i, v.len()));
                v.push(var);
            }
        }
    }
    (v, pairs)
}

struct YieldSink<'a> {
    buf: Vec<u8>,
    baton: &'a Baton,
    me: usize,
    cap: usize,
}

impl Write for YieldSink<'_> {
    fn write(&mut self, b: &[u8]) -> std::io::Result<usize> {
        // every sink call is a scheduling point
        self.baton.yield_point(self.me);
        let n = b.len().min(self.cap);
        self.buf.extend_from_slice(&b[..n]);
        Ok(n)
    }
    fn flush(&mut self) -> std::io::Result<()> {
        Ok(())
    }
}

/// A job that is interrupted in the middle of a write: the sink accepts `left` bytes in chunks of at
/// most `cap` and then either reports a non-retryable error (contract-obeying sink) or panics (the job
/// crashes; the caller catches the unwind and the worker thread / process lives on, as in any pool
/// that survives a panicking job). What was delivered is irrelevant here; the oracle looks at the
/// NEXT complete write on the same thread.
struct CrashSink {
    left: usize,
    cap: usize,
    panic: bool,
    calls: u64,
}

impl Write for CrashSink {
    fn write(&mut self, b: &[u8]) -> std::io::Result<usize> {
        self.calls += 1;
        if b.is_empty() {
            return Ok(0);
        }
        if self.left == 0 {
            if self.panic {
                panic!("pgsim: simulated crash of the writing job inside Write::write");
            }
            return Err(std::io::Error::new(std::io::ErrorKind::Other, "pgsim: simulated non-retryable sink failure"));
        }
        let n = b.len().min(self.cap).min(self.left);
        self.left -= n;
        Ok(n)
    }
    fn flush(&mut self) -> std::io::Result<()> {
        Ok(())
    }
}

fn implied_len(out: &[u8]) -> i128 {
    match Header::read(out) {
        Some(h) => Layout::of(&h).total_len() as i128,
        None => -1,
    }
}

/// End offsets of the header, class table, both member tables and the string section, from the
/// output's own header (crash points are biased towards them).
fn section_bounds(out: &[u8]) -> Vec<usize> {
    let mut v = vec![0usize, HEADER_LEN.min(out.len())];
    if let Some(h) = Header::read(out) {
        let l = Layout::of(&h);
        for x in [l.classes_end, l.members_start, l.members_end, l.by_params_start, l.by_params_end, l.strings_start, l.total_len()] {
            v.push((x as usize).min(out.len()));
        }
    }
    v
}

fn write_once(mapping: &[u8]) -> Result<Vec<u8>, String> {
    guarded(|| cur::write_cache(mapping))
}

/// Seeded heap perturbation. Leaked blocks of random sizes move where the heap grows; on top of
/// that a population of small blocks is allocated and a seeded subset freed in seeded order, which
/// leaves holes of assorted sizes: the allocator serves later requests from those holes, so the
/// *relative* order of the addresses of later allocations (what pointer-keyed sorting or hashing
/// would depend on) differs between seeds — reproducibly, since ASLR is off.
fn perturb_heap(rng: &mut Rng) {
    let n = rng.range(0, 12);
    for _ in 0..n {
        let sz = match rng.below(3) {
            0 => rng.range(1, 64),
            1 => rng.range(64, 4096),
            _ => rng.range(4096, 200_000),
        } as usize;
        let mut v: Vec<u8> = vec![0xA5; sz];
        // keep the allocation observable so that the optimiser cannot elide it
        std::hint::black_box(v.as_mut_ptr());
        std::mem::forget(v);
    }
    let k = rng.range(0, 160) as usize;
    let mut blocks: Vec<Option<Vec<u8>>> = (0..k)
        .map(|_| {
            let sz = *rng.pick(&[8usize, 16, 24, 32, 48, 64, 96, 128, 200, 320, 512, 1024]) + rng.usize_below(8);
            let mut v = vec![0x5Au8; sz];
            std::hint::black_box(v.as_mut_ptr());
            Some(v)
        })
        .collect();
    let mut order: Vec<usize> = (0..k).collect();
    rng.shuffle(&mut order);
    for i in order {
        if rng.chance(2, 3) {
            blocks[i] = None; // freed: a hole
        }
    }
    for b in blocks.into_iter().flatten() {
        std::mem::forget(b); // survivors stay where they are
    }
}

/// Disable ASLR for this process image by re-executing ourselves under ADDR_NO_RANDOMIZE.
fn ensure_no_aslr() -> bool {
    if std::env::var("PGSIM_NOASLR").is_ok() {
        return std::env::var("PGSIM_NOASLR").map(|v| v == "1").unwrap_or(false);
    }
    use std::os::unix::process::CommandExt;
    const ADDR_NO_RANDOMIZE: libc::c_ulong = 0x0040000;
    // SAFETY: plain syscall wrapper
    let ok = unsafe {
        let cur = libc::personality(0xffffffff);
        cur != -1 && libc::personality(cur as libc::c_ulong | ADDR_NO_RANDOMIZE) != -1
    };
    let exe = std::env::current_exe().expect("current_exe");
    let args: Vec<String> = std::env::args().skip(1).collect();
    let err = Command::new(exe).args(args).env("PGSIM_NOASLR", if ok { "1" } else { "0" }).exec();
    eprintln!("exec failed: {}", err);
    false
}

/// Restrict this process to the first `k` CPUs: `available_parallelism()` (what a library would size
/// a worker pool by) is part of the process configuration.
fn set_cpu_count(k: usize) -> usize {
    // SAFETY: plain libc calls on a zeroed cpu_set_t
    unsafe {
        let mut set: libc::cpu_set_t = std::mem::zeroed();
        if libc::sched_getaffinity(0, std::mem::size_of::<libc::cpu_set_t>(), &mut set) != 0 {
            return 0;
        }
        let avail: Vec<usize> = (0..libc::CPU_SETSIZE as usize).filter(|i| libc::CPU_ISSET(*i, &set)).collect();
        let mut want: libc::cpu_set_t = std::mem::zeroed();
        for c in avail.iter().take(k.max(1)) {
            libc::CPU_SET(*c, &mut want);
        }
        libc::sched_setaffinity(0, std::mem::size_of::<libc::cpu_set_t>(), &want);
    }
    std::thread::available_parallelism().map(|n| n.get()).unwrap_or(0)
}

/// `pgsim c14-child ...`: one simulated process.
pub fn child_main(args: &[String]) -> i32 {
    let aslr_off = ensure_no_aslr();
    let batch_seed: u64 = arg_value(args, "--batch-seed").and_then(|s| s.parse().ok()).unwrap_or(1);
    let n: u64 = arg_value(args, "--n").and_then(|s| s.parse().ok()).unwrap_or(10);
    let corpus = arg_value(args, "--corpus").map(|s| s == "1").unwrap_or(false);
    let large = arg_value(args, "--large").map(|s| s == "1").unwrap_or(false);
    let mass_flag = arg_value(args, "--mass").map(|s| s == "1").unwrap_or(false);
    let mass_phase = arg_value(args, "--mass-phase").map(|s| s == "1").unwrap_or(false);
    let max_threads: u64 = arg_value(args, "--threads-max").and_then(|s| s.parse().ok()).unwrap_or(4);
    let order_seed: u64 = arg_value(args, "--order-seed").and_then(|s| s.parse().ok()).unwrap_or(0);
    let dump: Option<usize> = arg_value(args, "--dump").and_then(|s| s.parse().ok());
    let (mappings, pairs): (Vec<Vec<u8>>, Vec<(usize, usize)>) = match arg_value(args, "--mapping-file") {
        Some(f) => {
            let m = std::fs::read(f).expect("mapping file");
            match same_length_variant(&m) {
                Some(v) => (vec![m, v], vec![(0, 1)]),
                None => (vec![m], vec![]),
            }
        }
        None => batch_mappings(batch_seed, n, corpus, large, mass_flag),
    };
    // prove the entropy seam: iteration order of a probe set, and a heap address
    let probe: HashSet<u32> = (0..24u32).collect();
    let order: Vec<String> = probe.iter().map(|x| x.to_string()).collect();
    let mut rng = Rng::new(run_seed(order_seed, "C14.child", 0));
    // the number of CPUs this process sees is drawn from its seed
    let cpus = set_cpu_count(*rng.pick(&[1usize, 2, 3, 4, 8, 16, 16]));
    // seed-derived heap layout before the first write: addresses differ between processes,
    // but are reproducible per seed (ASLR is off)
    perturb_heap(&mut rng);
    let heap_probe: Vec<u8> = Vec::with_capacity(3000);
    println!("PROBE order={} aslr_off={} heap={:x} cpus={}", order.join("."), aslr_off as u8, heap_probe.as_ptr() as usize, cpus);

    // history: the order in which this process serialises the mappings is part of the schedule
    let mut idxs: Vec<usize> = (0..mappings.len()).collect();
    rng.shuffle(&mut idxs);
    for &i in &idxs {
        let m = &mappings[i];
        let emit = |phase: &str, out: &Result<Vec<u8>, String>| match out {
            Ok(o) => {
                println!("W {} {} {:016x} {} {}", i, phase, digest_bytes(o), o.len(), implied_len(o));
                if dump == Some(i) {
                    println!("DUMP {} {} {}", i, phase, hex::encode(o));
                }
            }
            Err(p) => println!("W {} {} PANIC 0 0 {}", i, phase, panic_class(p).replace(' ', "_")),
        };
        let first = write_once(m);
        emit("w1", &first);
        perturb_heap(&mut rng);
        emit("w2", &write_once(m));
        // the same bytes at an address that is NOT 8- or 16-byte aligned (a sub-slice, a file mapped at
        // an offset): word-at-a-time scanning makes `address % 8` an input unless it is done right
        if m.len() < 2_000_000 {
            let off = 1 + rng.usize_below(7);
            let mut shifted: Vec<u8> = Vec::with_capacity(m.len() + 8);
            shifted.resize(off, 0);
            shifted.extend_from_slice(m);
            emit(&format!("o{}", off), &write_once(&shifted[off..]));
        }
        // Interrupted writes: a write of this mapping is cut short after a seeded number of bytes, once by
        // a sink error and once by a panic inside the sink that the caller catches (the thread and the
        // process survive, as a worker pool does). The NEXT complete write on this thread (x1 / p1, and
        // the first write of whichever mapping this process serialises next) must be the canonical bytes:
        // nothing an abandoned write leaves behind (thread-local or process-wide staging, a poisoned
        // lock) may become an input of a later one.
        if m.len() < 2_000_000 {
            let total = first.as_ref().map(|o| o.len()).unwrap_or(0);
            for (kind, panics) in [("x", false), ("p", true)] {
                // crash points are biased towards the section boundaries read from the reference header
                let at = if total == 0 {
                    0
                } else if rng.chance(1, 3) {
                    let b = section_bounds(first.as_ref().unwrap());
                    (*rng.pick(&b) + rng.usize_below(3)).saturating_sub(1).min(total)
                } else {
                    rng.usize_below(total + 1)
                };
                let cap = *rng.pick(&[1usize << 30, 1 << 30, 4096, 64, 7]);
                let mut sink = CrashSink { left: at, cap, panic: panics, calls: 0 };
                let r = guarded(|| {
                    let mm = cur::ProguardMapping::new(m);
                    cur::ProguardCache::write(&mm, &mut sink)
                });
                let outcome = match &r {
                    Ok(Ok(())) => "completed",
                    Ok(Err(_)) => "error-reported",
                    Err(_) => "unwound",
                };
                println!("F {} kind={} at={} of={} cap={} calls={} outcome={}", i, kind, at, total, cap, sink.calls, outcome);
                emit(&format!("{}1", kind), &write_once(m));
            }
        }
        // T threads write the same mapping concurrently under the seeded baton
        if m.len() < 100_000 {
            let t = rng.range(2, max_threads.max(2)) as usize;
            let policy = if rng.chance(1, 2) { Policy::Uniform } else { Policy::Pct { depth: rng.range(1, 3) as u32 } };
            let cap = *rng.pick(&[1usize << 30, 64, 7]);
            let baton = Baton::new(t, rng.next_u64(), policy, 64 * t as u64);
            let outs: Vec<Result<Vec<u8>, String>> = std::thread::scope(|s| {
                let hs: Vec<_> = (0..t)
                    .map(|me| {
                        let baton = &baton;
                        std::thread::Builder::new()
                            .stack_size(1 << 20)
                            .spawn_scoped(s, move || {
                                baton.start(me);
                                let _p = Participant { baton, me };
                                let mut sink = YieldSink { buf: Vec::new(), baton, me, cap };
                                let r = guarded(|| {
                                    let mm = cur::ProguardMapping::new(m);
                                    cur::ProguardCache::write(&mm, &mut sink)
                                });
                                match r {
                                    Ok(Ok(())) => Ok(sink.buf),
                                    Ok(Err(e)) => Err(format!("io error {:?}", e.kind())),
                                    Err(p) => Err(p),
                                }
                            })
                            .expect("spawn writer thread")
                    })
                    .collect();
                hs.into_iter().map(|h| h.join().unwrap_or_else(|_| Err("thread died".into()))).collect()
            });
            let (steps, switches, sd) = baton.summary();
            println!("S {} threads={} steps={} switches={} schedule={:016x} stalls={}", i, t, steps, switches, sd, baton.stalls());
            for (k, o) in outs.iter().enumerate() {
                emit(&format!("t{}", k), o);
            }
        }
    }
    // Thorough tier only ("--mass 1"): the one phase whose interleaving the simulator does NOT decide.
    // 16 real threads leave a barrier together and each convert the 150 000-class mapping, so that
    // their conversion phases (not only their sink calls) overlap in time: process-wide pools or
    // budgets that are exhausted only while millions of strings are in flight at once. The writer
    // drops its string index before its first sink call, so a scheduler at the sink seam can never
    // make two indexes coexist; equality of the outputs is demanded whatever the schedule, so the
    // phase cannot raise a false alarm, but a failure found here is replayed by re-running the phase,
    // not from a recorded schedule.
    if mass_phase {
        if let Some((i, m)) = mappings.iter().enumerate().find(|(_, m)| m.len() > 6_000_000) {
            let t = 16;
            let barrier = std::sync::Barrier::new(t);
            let outs: Vec<Result<Vec<u8>, String>> = std::thread::scope(|s| {
                let hs: Vec<_> = (0..t)
                    .map(|_| {
                        let barrier = &barrier;
                        s.spawn(move || {
                            barrier.wait();
                            write_once(m)
                        })
                    })
                    .collect();
                hs.into_iter().map(|h| h.join().unwrap_or_else(|_| Err("thread died".into()))).collect()
            });
            for (k, o) in outs.iter().enumerate() {
                match o {
                    Ok(o) => println!("W {} f{} {:016x} {} {}", i, k, digest_bytes(o), o.len(), implied_len(o)),
                    Err(p) => println!("W {} f{} PANIC 0 0 {}", i, k, panic_class(p).replace(' ', "_")),
                }
            }
        }
    }
    // Address reuse: equal-length siblings are copied into ONE reused buffer and serialised back to
    // back (which sibling comes first is drawn from the seed), so a stale association between a
    // memory range and earlier content is part of the explored configuration space.
    let max_len = pairs.iter().map(|(a, b)| mappings[*a].len().max(mappings[*b].len())).max().unwrap_or(0);
    let mut scratch: Vec<u8> = Vec::with_capacity(max_len + 1);
    for (a, b) in &pairs {
        let order = if rng.chance(1, 2) { [*a, *b] } else { [*b, *a] };
        for (k, i) in order.iter().enumerate() {
            scratch.clear();
            scratch.extend_from_slice(&mappings[*i]);
            let out = write_once(&scratch);
            match &out {
                Ok(o) => println!("W {} r{} {:016x} {} {}", i, k, digest_bytes(o), o.len(), implied_len(o)),
                Err(p) => println!("W {} r{} PANIC 0 0 {}", i, k, panic_class(p).replace(' ', "_")),
            }
        }
    }
    println!("DONE");
    0
}

// ---------------------------------------------------------------------------------------------
// driver

#[derive(Clone, Debug)]
struct ChildCfg {
    hash_seed: u64,
    batch_seed: u64,
    n: u64,
    corpus: bool,
    large: bool,
    mass: bool,
    mass_phase: bool,
    max_threads: u64,
    mapping_file: Option<String>,
    dump: Option<usize>,
}

#[derive(Default, Debug)]
struct ChildOut {
    probe_order: String,
    aslr_off: bool,
    heap: String,
    cpus: String,
    /// (mapping idx, phase) -> (digest, len, implied)
    writes: BTreeMap<(usize, String), (String, i128, i128)>,
    dumps: BTreeMap<(usize, String), String>,
    schedules: Vec<String>,
    /// interrupted-write records: "F idx kind=x|p at=.. of=.. cap=.. calls=.. outcome=.."
    faults: Vec<String>,
    done: bool,
    raw_digest: u64,
}

fn spawn_child(cfg: &ChildCfg) -> Result<ChildOut, String> {
    let exe = std::env::current_exe().map_err(|e| e.to_string())?;
    let mut cmd = Command::new(exe);
    cmd.arg("c14-child")
        .args(["--batch-seed", &cfg.batch_seed.to_string(), "--n", &cfg.n.to_string()])
        .args(["--corpus", if cfg.corpus { "1" } else { "0" }, "--large", if cfg.large { "1" } else { "0" }, "--mass", if cfg.mass { "1" } else { "0" }, "--mass-phase", if cfg.mass_phase { "1" } else { "0" }])
        .args(["--threads-max", &cfg.max_threads.to_string(), "--order-seed", &cfg.hash_seed.to_string()])
        .env("VERIF_HASH_SEED", cfg.hash_seed.to_string())
        .env("LD_PRELOAD", shim_path())
        .env_remove("PGSIM_NOASLR");
    if let Some(f) = &cfg.mapping_file {
        cmd.args(["--mapping-file", f]);
    }
    if let Some(d) = cfg.dump {
        cmd.args(["--dump", &d.to_string()]);
    }
    let out = cmd.output().map_err(|e| format!("cannot spawn child: {}", e))?;
    let text = String::from_utf8_lossy(&out.stdout).to_string();
    let mut co = ChildOut::default();
    let mut d = Digest::default();
    for line in text.lines() {
        d.str(line);
        let mut it = line.split(' ');
        match it.next() {
            Some("PROBE") => {
                for tok in it {
                    if let Some(v) = tok.strip_prefix("order=") {
                        co.probe_order = v.to_string();
                    } else if let Some(v) = tok.strip_prefix("aslr_off=") {
                        co.aslr_off = v == "1";
                    } else if let Some(v) = tok.strip_prefix("heap=") {
                        co.heap = v.to_string();
                    } else if let Some(v) = tok.strip_prefix("cpus=") {
                        co.cpus = v.to_string();
                    }
                }
            }
            Some("W") => {
                let idx: usize = it.next().and_then(|x| x.parse().ok()).unwrap_or(usize::MAX);
                let phase = it.next().unwrap_or("").to_string();
                let dig = it.next().unwrap_or("").to_string();
                let len: i128 = it.next().and_then(|x| x.parse().ok()).unwrap_or(-2);
                let implied: i128 = it.next().and_then(|x| x.parse().ok()).unwrap_or(-3);
                co.writes.insert((idx, phase), (dig, len, implied));
            }
            Some("DUMP") => {
                let idx: usize = it.next().and_then(|x| x.parse().ok()).unwrap_or(usize::MAX);
                let phase = it.next().unwrap_or("").to_string();
                co.dumps.insert((idx, phase), it.next().unwrap_or("").to_string());
            }
            Some("S") => co.schedules.push(line.to_string()),
            Some("F") => co.faults.push(line.to_string()),
            Some("DONE") => co.done = true,
            _ => {}
        }
    }
    co.raw_digest = d.finish();
    if !out.status.success() || !co.done {
        return Err(format!("child hash_seed={} failed: status={:?} stderr={}", cfg.hash_seed, out.status, String::from_utf8_lossy(&out.stderr)));
    }
    Ok(co)
}

/// Compare the children of one batch. Returns violations as (class, message, mapping idx, (child a, phase a), (child b, phase b)).
fn compare(children: &[(ChildCfg, ChildOut)], st: &mut Stats) -> Vec<(String, String, usize, (u64, String), (u64, String))> {
    let mut v = Vec::new();
    let Some((c0, o0)) = children.first() else { return v };
    let idxs: Vec<usize> = {
        let mut s: Vec<usize> = o0.writes.keys().map(|k| k.0).collect();
        s.dedup();
        s
    };
    for idx in idxs {
        let reference = o0.writes.get(&(idx, "w1".to_string())).cloned();
        let Some((rd, rlen, _)) = reference.clone() else { continue };
        if rd == "PANIC" {
            st.inc("control.write_panicked");
            continue;
        }
        let mut flagged = false;
        for (cfg, out) in children {
            for ((i, phase), (dig, len, implied)) in out.writes.range((idx, String::new())..(idx + 1, String::new())) {
                st.inc("outputs_compared");
                if phase.starts_with('t') {
                    st.inc("outputs_from_concurrent_threads");
                }
                if phase.starts_with('r') {
                    st.inc("outputs_from_address_reuse_phase");
                }
                if phase.starts_with('f') {
                    st.inc("outputs_from_free_running_overlap_phase");
                }
                if phase.starts_with('o') {
                    st.inc("outputs_from_misaligned_mapping_buffer");
                }
                if phase.starts_with('x') {
                    st.inc("outputs_after_write_cut_short_by_sink_error");
                }
                if phase.starts_with('p') {
                    st.inc("outputs_after_write_cut_short_by_caught_panic");
                }
                if flagged {
                    continue;
                }
                if *dig != rd || *len != rlen {
                    flagged = true;
                    v.push((
                        "output-differs".to_string(),
                        format!(
                            "mapping #{}: process hash_seed={} phase {} wrote digest {} ({}B) but process hash_seed={} phase w1 wrote {} ({}B)",
                            i, cfg.hash_seed, phase, dig, len, c0.hash_seed, rd, rlen
                        ),
                        idx,
                        (c0.hash_seed, "w1".to_string()),
                        (cfg.hash_seed, phase.clone()),
                    ));
                } else if len != implied {
                    flagged = true;
                    v.push((
                        "length-differs-from-header".to_string(),
                        format!("mapping #{}: output is {} bytes but its own header implies {} bytes", i, len, implied),
                        idx,
                        (cfg.hash_seed, phase.clone()),
                        (cfg.hash_seed, phase.clone()),
                    ));
                }
            }
        }
    }
    v
}

fn run_batch(batch_seed: u64, n: u64, corpus: bool, large: bool, mass: bool, n_children: u64, max_threads: u64, workers: usize, mapping_file: Option<String>) -> Result<Vec<(ChildCfg, ChildOut)>, String> {
    let cfgs: Vec<ChildCfg> = (0..n_children)
        .map(|k| ChildCfg { hash_seed: run_seed(batch_seed, "C14.hash", k) % 1_000_000_007, batch_seed, n, corpus, large, mass, mass_phase: mass && k < 8, max_threads, mapping_file: mapping_file.clone(), dump: None })
        .collect();
    let results: std::sync::Mutex<Vec<(usize, Result<ChildOut, String>)>> = std::sync::Mutex::new(Vec::new());
    let next = std::sync::atomic::AtomicUsize::new(0);
    std::thread::scope(|s| {
        for _ in 0..workers.min(cfgs.len()).max(1) {
            s.spawn(|| loop {
                let i = next.fetch_add(1, std::sync::atomic::Ordering::Relaxed);
                if i >= cfgs.len() {
                    break;
                }
                let r = spawn_child(&cfgs[i]);
                results.lock().unwrap().push((i, r));
            });
        }
    });
    let mut rs = results.into_inner().unwrap();
    rs.sort_by_key(|r| r.0);
    let mut out = Vec::new();
    for (i, r) in rs {
        out.push((cfgs[i].clone(), r?));
    }
    Ok(out)
}

fn tmp_mapping_file(bytes: &[u8], tag: &str) -> String {
    let dir = format!("{}/build/tmp", verif_dir());
    let _ = std::fs::create_dir_all(&dir);
    let path = format!("{}/c14-{}-{}.map", dir, std::process::id(), tag);
    std::fs::write(&path, bytes).expect("write tmp mapping");
    path
}

/// Does the single mapping alone (fresh processes, no history) still show the violation class?
fn single_mapping_violates(mapping: &[u8], class: &str, seeds: &[u64]) -> Option<String> {
    let path = tmp_mapping_file(mapping, "min");
    let mut children = Vec::new();
    for hs in seeds {
        let cfg = ChildCfg { hash_seed: *hs, batch_seed: 0, n: 0, corpus: false, large: false, mass: false, mass_phase: false, max_threads: 4, mapping_file: Some(path.clone()), dump: None };
        match spawn_child(&cfg) {
            Ok(o) => children.push((cfg, o)),
            Err(_) => return None,
        }
    }
    let mut st = Stats::default();
    let r = compare(&children, &mut st).into_iter().find(|v| v.0 == class).map(|v| v.1);
    let _ = std::fs::remove_file(&path);
    r
}

pub fn replay(doc: &Value) -> i32 {
    let case = &doc["case"];
    let class = doc["class"].as_str().unwrap_or("").to_string();
    let seeds: Vec<u64> = case["hash_seeds"].as_array().map(|a| a.iter().filter_map(|x| x.as_u64()).collect()).unwrap_or_default();
    if !std::path::Path::new(&shim_path()).exists() {
        eprintln!("replay: {} missing (run ./check setup)", shim_path());
        return 2;
    }
    if case["mode"].as_str() == Some("single") {
        let Some(mapping) = bytes_from_json(&case["mapping"]) else { return 2 };
        println!("replay C14 (single mapping, processes with hash seeds {:?})", seeds);
        match single_mapping_violates(&mapping, &class, &seeds) {
            Some(msg) => {
                println!("reproduced: class={} :: {}", class, msg);
                1
            }
            None => {
                println!("not reproduced: the property holds on this case");
                0
            }
        }
    } else {
        let b = &case["batch"];
        let (Some(batch_seed), Some(n)) = (b["batch_seed"].as_str().and_then(|s| s.parse::<u64>().ok()), b["n"].as_u64()) else { return 2 };
        println!("replay C14 (whole batch: history-dependent case), hash seeds {:?}", seeds);
        let mut children = Vec::new();
        for hs in &seeds {
            let cfg = ChildCfg { hash_seed: *hs, batch_seed, n, corpus: b["corpus"].as_bool().unwrap_or(false), large: b["large"].as_bool().unwrap_or(false), mass: b["mass"].as_bool().unwrap_or(false), mass_phase: b["mass"].as_bool().unwrap_or(false), max_threads: b["max_threads"].as_u64().unwrap_or(4), mapping_file: None, dump: None };
            match spawn_child(&cfg) {
                Ok(o) => children.push((cfg, o)),
                Err(e) => {
                    eprintln!("{}", e);
                    return 2;
                }
            }
        }
        let mut st = Stats::default();
        match compare(&children, &mut st).into_iter().find(|v| v.0 == class) {
            Some(v) => {
                println!("reproduced: class={} :: {}", v.0, v.1);
                1
            }
            None => {
                println!("not reproduced: the property holds on this case");
                0
            }
        }
    }
}

pub fn main(env: &Env) -> i32 {
    if !std::path::Path::new(&shim_path()).exists() {
        eprintln!("HARNESS-ERROR: {} missing (run ./check setup)", shim_path());
        return 2;
    }
    let mut rep = Report::new("C14", "exploration", env);
    rep.expected_probes = vec!["outputs_from_concurrent_threads", "thread_schedules", "distinct_probe_set_iteration_orders", "distinct_heap_probe_addresses", "outputs_from_address_reuse_phase", "outputs_from_misaligned_mapping_buffer", "distinct_cpu_counts_seen_by_processes", "fault.sink_error_mid_write", "fault.job_panic_inside_sink_write", "outputs_after_write_cut_short_by_sink_error", "outputs_after_write_cut_short_by_caught_panic"];
    rep.real.push("separately started OS processes (fork/exec of this binary), real std threads inside them".into());
    rep.stubs = vec![
        "process entropy: LD_PRELOAD getrandom()/getentropy() shim answering from a PRNG seeded by VERIF_HASH_SEED (decides every RandomState key in the process)".into(),
        "address space: ASLR disabled via personality(ADDR_NO_RANDOMIZE) + seeded heap perturbation (leaked allocations, freed holes); each mapping is also serialised from a buffer at a seeded odd offset (address % 8 != 0)".into(),
        "CPU count: sched_setaffinity to the first k CPUs, k drawn from the seed out of {1,2,3,4,8,16} (what available_parallelism() reports)".into(),
        "thread scheduler inside each process: seeded baton, every sink write() is a scheduling point".into(),
        "write history: the order in which a process serialises the batch is drawn from its seed".into(),
        "sink of the interrupted writes: accepts a seeded number of bytes (biased to section boundaries) in seeded chunks, then returns a non-retryable error or panics; the panic is caught by the harness and the thread keeps working".into(),
    ];
    rep.assumptions = vec![
        "equality of all outputs for one mapping is demanded whatever the seed; the first process's first write is the reference".into(),
        "length oracle: len == A(A(A(24+28c)+36m)+36p)+s with A = round up to 8, read from the output's own header".into(),
    ];
    let seed = env.seed;
    let thorough = env.thorough;
    let (n_batches, n, n_children, max_threads) = if thorough { (env.scaled(12), 1500u64, 64u64, 8u64) } else { (1, env.scaled(220), 12u64, 6u64) };
    rep.rule = format!(
        "{} batch(es); per batch {} seeded-generated mappings (0..12 classes x 0..12 members) + 3 hand-written tie/duplicate/orphan shapes + one big generated mapping (> 8192 records) + one huge one (> 65 536 classes and members) + one class with > 65 536 distinct methods + all corpus files (incl. the 0.7 MB and 2.3 MB ones) + an equal-length sibling for every 6th mapping are serialised by {} separately started processes, each with its own hash seed, heap layout, CPU count (affinity mask) and processing order; \
         inside a process every mapping is written twice (heap perturbed in between), once more from a misaligned copy (address % 8 in 1..7), then two writes of it are cut short after a seeded number of bytes (one by a sink error, one by a panic inside the sink that is caught; each is followed by a complete write on the same thread, which joins the comparison), and then by 2..{} threads concurrently under the seeded baton (every sink call is a scheduling point, chunk cap drawn from {{inf,64,7}}); in the first thorough batch a 150 000-class mapping replaces the 66 000-class one and, in 8 of the processes, is additionally converted by 16 free-running threads released from a barrier (the only phase whose schedule is not decided by the simulator); finally equal-length siblings are copied into one reused buffer and written back to back in seed-dependent order (address reuse). \
         Oracle: all outputs for one mapping are byte-identical (compared by 64-bit digest + length; full bytes re-fetched on mismatch) and as long as their own header implies. \
         distinct_nontrivial = distinct (process, mapping, phase) outputs compared beyond the reference write.",
        n_batches, n, n_children, max_threads
    );
    let mut st = Stats::default();
    let mut violations: Vec<Violation> = Vec::new();
    let mut probe_orders: HashSet<String> = HashSet::new();
    let mut heaps: HashSet<String> = HashSet::new();
    let mut cpu_counts: HashSet<String> = HashSet::new();
    let mut aslr_off_all = true;
    for b in 0..n_batches {
        let batch_seed = run_seed(seed, "C14.batch", b);
        let children = match run_batch(batch_seed, n, true, true, thorough && b < 1, n_children, max_threads, if thorough && b < 1 { 6 } else { env.workers }, None) {
            Ok(c) => c,
            Err(e) => {
                eprintln!("HARNESS-ERROR: {}", e);
                return 2;
            }
        };
        // the seam must be effective: same seed -> same order (checked by the determinism self-test),
        // different seeds -> more than one order
        for (_, o) in &children {
            probe_orders.insert(o.probe_order.clone());
            heaps.insert(o.heap.clone());
            cpu_counts.insert(o.cpus.clone());
            aslr_off_all &= o.aslr_off;
            st.add("thread_schedules", o.schedules.len() as u64);
            for f in &o.faults {
                let kind = if f.contains(" kind=p ") { "job_panic_inside_sink_write" } else { "sink_error_mid_write" };
                if f.ends_with("outcome=completed") {
                    st.inc(&format!("fault.{}.not_reached", kind));
                } else {
                    st.inc(&format!("fault.{}", kind));
                    if f.ends_with("outcome=unwound") != (kind == "job_panic_inside_sink_write") {
                        st.inc("control.interrupted_write_unexpected_outcome");
                    }
                }
            }
            st.add("baton_stalls_resolved", o.schedules.iter().filter(|l| !l.ends_with("stalls=0")).count() as u64);
            st.digest_sum = st.digest_sum.wrapping_add(o.raw_digest);
            st.runs += 1;
        }
        st.add("processes", children.len() as u64);
        st.add("mappings", children[0].1.writes.keys().map(|k| k.0).collect::<HashSet<_>>().len() as u64);
        let vs = compare(&children, &mut st);
        if b == 0 {
            st.samples.push(json!({
                "process_hash_seeds": children.iter().map(|c| c.0.hash_seed).collect::<Vec<_>>(),
                "probe_set_iteration_orders": children.iter().take(3).map(|c| c.1.probe_order.clone()).collect::<Vec<_>>(),
                "heap_probe_addresses": children.iter().take(4).map(|c| c.1.heap.clone()).collect::<Vec<_>>(),
                "example_schedule": children[0].1.schedules.first(),
                "example_write": children[0].1.writes.iter().next().map(|(k, v)| format!("mapping#{} {} digest={} len={}", k.0, k.1, v.0, v.1)),
            }));
        }
        for (class, message, idx, a, bside) in vs.into_iter().take(3) {
            let (mappings, _) = batch_mappings(batch_seed, n, true, true, thorough && b < 1);
            let mapping = mappings.get(idx).cloned().unwrap_or_default();
            let seeds = vec![a.0, bside.0];
            // minimise: does the mapping alone (no history) show it? then shrink its lines.
            let mut case = json!({
                "mode": "batch",
                "batch": {"batch_seed": batch_seed.to_string(), "n": n, "corpus": true, "large": true, "mass": thorough && b < 1, "max_threads": max_threads},
                "hash_seeds": seeds, "mapping_index": idx, "phases": [a.1, bside.1], "mapping": bytes_to_json(&mapping),
            });
            let mut msg = message.clone();
            let probe_seeds: Vec<u64> = if seeds[0] == seeds[1] { vec![seeds[0], seeds[0] + 1] } else { seeds.clone() };
            start_minimise_clock(40);
            if single_mapping_violates(&mapping, &class, &probe_seeds).is_some() {
                let mut budget = 120usize;
                let lines = split_lines(&mapping);
                let min = ddmin(&lines, &mut budget, &mut |ls| single_mapping_violates(&join_lines(ls), &class, &probe_seeds).is_some());
                let mm = join_lines(&min);
                if let Some(m2) = single_mapping_violates(&mm, &class, &probe_seeds) {
                    msg = m2;
                    case = json!({"mode": "single", "hash_seeds": probe_seeds, "mapping": bytes_to_json(&mm), "minimised_from": {"mapping_bytes": mapping.len(), "batch_index": idx}});
                }
            }
            violations.push(Violation { property: "C14".into(), run: b, class, message: msg, case });
        }
        if !violations.is_empty() {
            break;
        }
    }
    if probe_orders.len() < 2 {
        eprintln!("HARNESS-ERROR: the getrandom seam is ineffective (all processes saw the same hash order): {:?}", probe_orders);
        return 2;
    }
    st.add("distinct_probe_set_iteration_orders", probe_orders.len() as u64);
    st.add("distinct_heap_probe_addresses", heaps.len() as u64);
    st.add("distinct_cpu_counts_seen_by_processes", cpu_counts.len() as u64);
    rep.extra.insert("aslr_disabled_in_all_children".into(), json!(aslr_off_all));
    let evaluations = st.get("outputs_compared");
    rep.write(&st, evaluations.max(1), evaluations.saturating_sub(st.get("mappings")).max(2), violations.len(), None);
    println!(
        "C14 {}: batches={} processes={} mappings/batch={} outputs_compared={} from_threads={} hash_orders={} heaps={} aslr_off={} digest={:016x}",
        env.tier(),
        n_batches,
        st.get("processes"),
        st.get("mappings") / n_batches.max(1),
        evaluations,
        st.get("outputs_from_concurrent_threads"),
        probe_orders.len(),
        heaps.len(),
        aslr_off_all,
        st.digest_sum
    );
    conclude("C14", "processes", seed, &violations)
}

// ---------------------------------------------------------------------------------------------
// Miri entry point: main thread writes twice, three threads write concurrently; the line printed
// must be identical for every Miri seed (each seed = its own hash keys, addresses, schedule).

pub fn miri_main(args: &[String]) -> i32 {
    let wseed: u64 = arg_value(args, "--wseed").and_then(|s| s.parse().ok()).unwrap_or(1);
    let mut mappings: Vec<Vec<u8>> = batch_mappings(wseed, 0, false, false, false).0;
    let mut rng = Rng::new(run_seed(wseed, "C14.miri", 0));
    for _ in 0..2 {
        mappings.push(gen::gen_case(&mut rng, 3, 5).1);
    }
    let mut d = Digest::default();
    for (i, m) in mappings.iter().enumerate() {
        let a = cur::write_cache(m);
        let b = cur::write_cache(m);
        let outs: Vec<Vec<u8>> = std::thread::scope(|s| {
            let hs: Vec<_> = (0..3).map(|_| s.spawn(|| cur::write_cache(m))).collect();
            hs.into_iter().map(|h| h.join().expect("writer thread")).collect()
        });
        if a != b || outs.iter().any(|o| *o != a) {
            println!("MIRI-C14 VIOLATION mapping#{} outputs differ within one process (repeat write or concurrent threads)", i);
            return 1;
        }
        if a.len() as i128 != implied_len(&a) {
            println!("MIRI-C14 VIOLATION mapping#{} length {} differs from header-implied {}", i, a.len(), implied_len(&a));
            return 1;
        }
        d.bytes(&a);
    }
    println!("MIRI-C14 ok wseed={} mappings={} outputs={:016x}", wseed, mappings.len(), d.finish());
    0
}
