//! C15 — cache writing is independent of sink chunking and propagates sink errors.
//! Seam: the `W: Write` argument of `ProguardCache::write`. Simulator: `SimSink` + fault plans.

use crate::api::cur;
use crate::common::*;
use crate::gen;
use crate::layout::{Header, Layout};
use crate::rng::{digest_bytes, run_seed, Digest, Rng};
use crate::sink::*;
use serde_json::{json, Value};
use std::io::ErrorKind;

pub struct Outcome {
    pub result: Result<(), ErrorKind>,
    pub panic: Option<String>,
    pub delivered: Vec<u8>,
    pub fired: Fired,
    pub calls: u64,
    pub log: u64,
}

/// One simulated execution: the real writer against the simulated sink.
pub fn run_write(mapping: &[u8], plan: &SinkPlan) -> Outcome {
    let mut sink = SimSink::new(plan);
    // generous: a correct writer needs at most one call per byte plus one per injected fault
    sink.call_budget = 20 * (mapping.len() as u64 + 64) + 10_000;
    let r = guarded(|| {
        let m = cur::ProguardMapping::new(mapping);
        cur::ProguardCache::write(&m, &mut sink)
    });
    let (result, panic) = match r {
        Ok(Ok(())) => (Ok(()), None),
        Ok(Err(e)) => (Err(e.kind()), None),
        Err(p) => (Err(ErrorKind::Other), Some(p)),
    };
    let mut log = sink.log;
    log.u64(match &result {
        Ok(()) => 1,
        Err(k) => 2 + *k as u64,
    });
    log.bytes(&sink.delivered);
    Outcome { result, panic, delivered: sink.delivered, fired: sink.fired, calls: sink.calls, log: log.finish() }
}

/// The oracle: exactly the clauses of the statement.
pub fn judge(canon: &[u8], o: &Outcome) -> Option<(String, String)> {
    if let Some(p) = &o.panic {
        if p.contains(CALL_BUDGET_MARK) {
            return Some((
                "write-does-not-terminate".into(),
                format!("write kept calling the sink ({} calls for a {}-byte file) without ever returning", o.calls, canon.len()),
            ));
        }
        return Some((format!("panic {}", panic_class(p)), format!("write panicked under the simulated sink: {}", p)));
    }
    match &o.result {
        Ok(()) => {
            if o.delivered != canon {
                let first_diff = o.delivered.iter().zip(canon.iter()).position(|(a, b)| a != b).unwrap_or(o.delivered.len().min(canon.len()));
                return Some((
                    "ok-with-wrong-bytes".into(),
                    format!(
                        "write returned Ok(()) but the sink holds {} bytes, canonical is {} bytes, first difference at offset {}",
                        o.delivered.len(),
                        canon.len(),
                        first_diff
                    ),
                ));
            }
            if o.fired.fatal {
                return Some((
                    "ok-after-non-retryable-failure".into(),
                    "the sink reported a non-retryable failure but write returned Ok(())".into(),
                ));
            }
            None
        }
        Err(k) => {
            if o.fired.fatal && !canon.starts_with(&o.delivered) {
                return Some((
                    "err-delivered-not-a-prefix".into(),
                    format!("write failed ({:?}) after delivering {} bytes that are not a prefix of the canonical bytes", k, o.delivered.len()),
                ));
            }
            if !o.fired.fatal && !o.fired.soft_error && !o.fired.any_error_or_zero() {
                return Some((
                    "spurious-failure".into(),
                    format!("write failed ({:?}) although the sink never reported an error or Ok(0)", k),
                ));
            }
            None
        }
    }
}

fn canon_of(mapping: &[u8]) -> Result<Vec<u8>, String> {
    guarded(|| cur::write_cache(mapping))
}

struct Ctx<'a> {
    mapping: &'a [u8],
    canon: &'a [u8],
    layout: Option<Layout>,
    mdig: u64,
    run: u64,
}

fn account(cx: &Ctx, plan: &SinkPlan, o: &Outcome, st: &mut Stats) -> bool {
    st.inc("executions");
    st.add("sink_calls", o.calls);
    let f = &o.fired;
    st.add("fired.short_once", f.short);
    st.add("fired.interrupted", f.interrupted);
    st.add("fired.hard_sticky", f.hard_sticky);
    st.add("fired.hard_transient", f.hard_transient);
    st.add("fired.write_zero", f.zero);
    st.add("fired.disk_full", f.disk_full);
    st.add("fired.capped_calls", f.capped_calls);
    let nontrivial = f.short + f.interrupted + f.hard_sticky + f.hard_transient + f.zero + f.disk_full + f.capped_calls > 0;
    if let (Some(off), Some(l)) = (f.first_fault_offset, cx.layout.as_ref()) {
        if l.in_padding(off as u128) {
            st.inc("probe.fault_inside_padding_write");
        }
        st.inc(&format!("probe.first_fault_in.{}", l.section_of(off as u128)));
        if off % 4 != 0 {
            st.inc("probe.fault_split_a_4_byte_field");
        }
    }
    if f.first_fault_call == Some(0) {
        st.inc("probe.fault_on_first_call");
    }
    if let Some(c) = f.first_fault_call {
        if c + 1 == o.calls {
            st.inc("probe.fault_on_last_call");
        }
    }
    if f.calls_after_transient > 0 {
        st.inc("probe.transient_error_followed_by_calls");
    }
    match &o.result {
        Ok(()) => st.inc("outcome.ok"),
        Err(ErrorKind::Interrupted) => st.inc("outcome.err_interrupted_surfaced"),
        Err(ErrorKind::WriteZero) => st.inc("outcome.err_write_zero"),
        Err(_) => st.inc("outcome.err_other"),
    }
    let _ = plan;
    nontrivial
}

fn case_json(mapping: &[u8], plan: &SinkPlan) -> Value {
    json!({"mapping": bytes_to_json(mapping), "plan": plan.to_json()})
}

fn check_one(cx: &Ctx, plan: &SinkPlan, st: &mut Stats, vs: &mut Vec<Violation>, nontrivial: &mut u64) {
    let o = run_write(cx.mapping, plan);
    if account(cx, plan, &o, st) {
        *nontrivial += 1;
    }
    let mut d = Digest::default();
    d.u64(cx.mdig);
    d.u64(o.log);
    st.digest_sum = st.digest_sum.wrapping_add(d.finish());
    if let Some((class, message)) = judge(cx.canon, &o) {
        if vs.len() < 8 {
            vs.push(Violation { property: "C15".into(), run: cx.run, class, message, case: case_json(cx.mapping, plan) });
        }
    }
}

const ENUM_CAPS: [Option<usize>; 5] = [Some(1), Some(3), Some(4), Some(7), None];

/// Single-fault enumeration for one mapping: every call index x every fault kind, for several
/// chunk caps; every cap 1..16 fault-free; disk-full at every capacity.
fn enumerate_mapping(run: u64, mapping: &[u8], st: &mut Stats, vs: &mut Vec<Violation>, sample: bool) {
    let canon = match canon_of(mapping) {
        Ok(c) => c,
        Err(p) => {
            // the fault-free control run itself panicked: that is C13's business, not a C15 verdict
            st.inc("control.write_to_vec_panicked");
            let _ = p;
            return;
        }
    };
    let layout = Header::read(&canon).map(|h| Layout::of(&h));
    let cx = Ctx { mapping, canon: &canon, layout, mdig: digest_bytes(mapping), run };
    let mut nontrivial = 0u64;
    st.inc("mappings");
    if let Some(l) = &cx.layout {
        if l.members_start != l.classes_end || l.by_params_start != l.members_end || l.strings_start != l.by_params_end {
            st.inc("mappings_with_padding");
        }
    }

    // fault-free control (cap = inf, no faults)
    let control = SinkPlan::default();
    check_one(&cx, &control, st, vs, &mut nontrivial);

    // every chunk cap 1..=16
    for k in 1..=16usize {
        let plan = SinkPlan { cap: Some(k), ..Default::default() };
        check_one(&cx, &plan, st, vs, &mut nontrivial);
    }
    // every single fault at every call index
    for cap in ENUM_CAPS {
        let base = SinkPlan { cap, ..Default::default() };
        let n_calls = run_write(mapping, &base).calls;
        for i in 0..n_calls {
            let kinds = [
                FaultKind::Short((i as u32).wrapping_mul(2654435761u32).wrapping_add(7)),
                FaultKind::Short(0), // exactly one byte accepted
                FaultKind::Interrupted(1),
                FaultKind::Interrupted(3),
                FaultKind::Hard(ErrK::ALL[(i % 4) as usize], true),
                FaultKind::Hard(ErrK::ALL[((i + 1) % 4) as usize], false),
                FaultKind::Hard(if i % 2 == 0 { ErrK::WouldBlock } else { ErrK::TimedOut }, false),
                FaultKind::Zero(false),
                FaultKind::Zero(true),
            ];
            for kind in kinds {
                if matches!(kind, FaultKind::Short(_)) && cap == Some(1) {
                    continue; // a 1-byte offer cannot be short
                }
                let plan = SinkPlan { cap, faults: vec![Fault { at: i, kind }], disk_capacity: None, cap_switch: None, full_is_zero: false };
                check_one(&cx, &plan, st, vs, &mut nontrivial);
            }
            if matches!(cap, Some(3) | None) {
                // two faults at adjacent calls (what a retry path meets right after the first fault)
                let pairs = [
                    (FaultKind::Short(0x5bd1_e995), FaultKind::Interrupted(1)),
                    (FaultKind::Interrupted(1), FaultKind::Short(0x1b87_3593)),
                    (FaultKind::Short(0x85eb_ca6b), FaultKind::Short(0xc2b2_ae35)),
                    (FaultKind::Zero(false), FaultKind::Short(0x27d4_eb2f)),
                    (FaultKind::Short(0x1656_67b1), FaultKind::Hard(ErrK::BrokenPipe, true)),
                    (FaultKind::Interrupted(2), FaultKind::Hard(ErrK::StorageFull, false)),
                    (FaultKind::Short(0x9e37_79b9), FaultKind::Zero(true)),
                    (FaultKind::Short(0x2545_f491), FaultKind::Hard(ErrK::WouldBlock, false)),
                    (FaultKind::Short(0), FaultKind::Hard(ErrK::TimedOut, false)),
                    (FaultKind::Short(0), FaultKind::Interrupted(64)),
                ];
                for (a, b) in pairs {
                    let plan = SinkPlan { cap, faults: vec![Fault { at: i, kind: a }, Fault { at: i + 1, kind: b }], disk_capacity: None, cap_switch: None, full_is_zero: false };
                    check_one(&cx, &plan, st, vs, &mut nontrivial);
                }
            }
            if matches!(cap, Some(4) | None) {
                // the chunk cap changes at this call: everything -> one byte per call, and back
                for to in [Some(1usize), Some(3), None] {
                    if to != cap {
                        let plan = SinkPlan { cap, faults: vec![], disk_capacity: None, cap_switch: Some((i, to)), full_is_zero: false };
                        check_one(&cx, &plan, st, vs, &mut nontrivial);
                        let plan = SinkPlan { cap, faults: vec![Fault { at: i + 1, kind: FaultKind::Hard(ErrK::BrokenPipe, true) }], disk_capacity: None, cap_switch: Some((i, to)), full_is_zero: false };
                        check_one(&cx, &plan, st, vs, &mut nontrivial);
                    }
                }
                // long runs of EINTR (a signal storm): retry budgets exist
                for burst in [63u16, 64, 65, 128, 256, 1000] {
                    let plan = SinkPlan { cap, faults: vec![Fault { at: i, kind: FaultKind::Interrupted(burst) }], disk_capacity: None, cap_switch: None, full_is_zero: false };
                    check_one(&cx, &plan, st, vs, &mut nontrivial);
                }
            }
            if cap.is_none() {
                // the unchunked sink has one call per section: every error kind at every call
                for k in ErrK::ALL {
                    for sticky in [true, false] {
                        let plan = SinkPlan { cap, faults: vec![Fault { at: i, kind: FaultKind::Hard(k, sticky) }], disk_capacity: None, cap_switch: None, full_is_zero: false };
                        check_one(&cx, &plan, st, vs, &mut nontrivial);
                    }
                }
            }
        }
    }
    // disk full at every capacity
    for cap in [None, Some(1usize), Some(5)] {
        let step = if canon.len() > 4096 { canon.len() / 2048 } else { 1 };
        let mut c = 0;
        while c < canon.len() {
            let plan = SinkPlan { cap, faults: vec![], disk_capacity: Some(c), cap_switch: None, full_is_zero: false };
            check_one(&cx, &plan, st, vs, &mut nontrivial);
            // the same capacity as a fixed-size buffer: Ok(0) when full
            let plan = SinkPlan { cap, faults: vec![], disk_capacity: Some(c), cap_switch: None, full_is_zero: true };
            check_one(&cx, &plan, st, vs, &mut nontrivial);
            c += step;
        }
    }
    st.keyed_max(cx.mdig, nontrivial);
    if sample {
        st.samples.push(json!({
            "mapping_bytes": mapping.len(), "canonical_cache_bytes": canon.len(),
            "mapping_head": String::from_utf8_lossy(&mapping[..mapping.len().min(160)]),
            "example_plan": SinkPlan { cap: Some(3), faults: vec![Fault{at: 2, kind: FaultKind::Zero(false)}], disk_capacity: None, cap_switch: None, full_is_zero: false }.to_json(),
            "executions_for_this_mapping": nontrivial,
        }));
    }
    st.run_done(cx.mdig);
}

/// A mapping whose sections are large (several KiB each): size-dependent write paths exist.
fn gen_large(rng: &mut Rng) -> Vec<u8> {
    let mut cfg = gen::GenCfg::swarm(rng, 10, 10);
    if rng.chance(1, 6) {
        cfg.max_classes = rng.range(2400, 6500); // > 64 KiB of class entries
        cfg.max_members = 1;
        cfg.pct_wide_class = 0;
        cfg.class_pool = 16;
        cfg.huge_names = false;
    } else if rng.chance(1, 2) {
        cfg.max_classes = rng.range(2, 5);
        cfg.pct_wide_class = 100; // 70..150 distinct methods per class
    } else {
        cfg.max_classes = rng.range(150, 260); // > 4096 bytes of class entries
        cfg.max_members = 3;
        cfg.pct_wide_class = 0;
        cfg.class_pool = 16;
    }
    cfg.pct_long_name = cfg.pct_long_name.min(3);
    gen::gen_mapping(rng, &cfg)
}

/// Seeded multi-fault exploration for one mapping.
fn explore_mapping(run: u64, rng: &mut Rng, mapping: &[u8], plans: u64, st: &mut Stats, vs: &mut Vec<Violation>) {
    let canon = match canon_of(mapping) {
        Ok(c) => c,
        Err(_) => {
            st.inc("control.write_to_vec_panicked");
            return;
        }
    };
    let layout = Header::read(&canon).map(|h| Layout::of(&h));
    let cx = Ctx { mapping, canon: &canon, layout, mdig: digest_bytes(mapping), run };
    let mut nontrivial = 0;
    let calls_hint = run_write(mapping, &SinkPlan::default()).calls;
    st.inc("mappings");
    if canon.len() < 200_000 {
        for k in 1..=16usize {
            let plan = SinkPlan { cap: Some(k), ..Default::default() };
            check_one(&cx, &plan, st, vs, &mut nontrivial);
        }
    }
    for p in 0..plans {
        let plan = SinkPlan::random(rng, calls_hint, canon.len());
        let before = nontrivial;
        check_one(&cx, &plan, st, vs, &mut nontrivial);
        if nontrivial > before {
            let mut d = Digest::default();
            d.u64(cx.mdig);
            d.str(&plan.to_json().to_string());
            st.note_distinct(d.finish());
        }
        if run < 3 && p == 0 {
            st.samples.push(json!({"mapping_bytes": mapping.len(), "canonical_cache_bytes": canon.len(), "plan": plan.to_json()}));
        }
    }
    st.run_done(cx.mdig);
}

// ---------------------------------------------------------------------------------------------
// minimisation + replay

fn violates_same(mapping: &[u8], plan: &SinkPlan, class: &str) -> bool {
    let Ok(canon) = canon_of(mapping) else { return false };
    let o = run_write(mapping, plan);
    matches!(judge(&canon, &o), Some((c, _)) if c == class)
}

/// For a candidate mapping: find a plan of the same shape (same cap, same fault kinds, any call
/// indices) that still shows the same violation class.
fn refit_plan(mapping: &[u8], plan: &SinkPlan, class: &str) -> Option<SinkPlan> {
    if violates_same(mapping, plan, class) {
        return Some(plan.clone());
    }
    if plan.faults.len() == 1 && plan.disk_capacity.is_none() {
        let n = run_write(mapping, &SinkPlan { cap: plan.cap, ..Default::default() }).calls;
        for i in 0..n.min(5000) {
            let p = SinkPlan { cap: plan.cap, faults: vec![Fault { at: i, kind: plan.faults[0].kind }], disk_capacity: None, cap_switch: None, full_is_zero: false };
            if violates_same(mapping, &p, class) {
                return Some(p);
            }
        }
    }
    if plan.faults.is_empty() {
        if let Some(_c) = plan.disk_capacity {
            let Ok(canon) = canon_of(mapping) else { return None };
            for c in 0..canon.len().min(5000) {
                let p = SinkPlan { cap: plan.cap, faults: vec![], disk_capacity: Some(c), cap_switch: None, full_is_zero: false };
                if violates_same(mapping, &p, class) {
                    return Some(p);
                }
            }
        }
    }
    None
}

pub fn minimise(v: &Violation) -> Violation {
    start_minimise_clock(40);
    let Some(mapping) = bytes_from_json(&v.case["mapping"]) else { return v.clone() };
    let Some(mut plan) = SinkPlan::from_json(&v.case["plan"]) else { return v.clone() };
    let class = v.class.clone();
    let mut budget = 2000usize;
    // 1. faults
    let faults = ddmin(&plan.faults.clone(), &mut budget, &mut |fs| {
        let p = SinkPlan { cap: plan.cap, faults: fs.to_vec(), disk_capacity: plan.disk_capacity, cap_switch: plan.cap_switch, full_is_zero: plan.full_is_zero };
        violates_same(&mapping, &p, &class)
    });
    plan.faults = faults;
    if plan.disk_capacity.is_some() {
        let p = SinkPlan { disk_capacity: None, ..plan.clone() };
        if violates_same(&mapping, &p, &class) {
            plan = p;
        }
    }
    // 2. mapping lines (the plan is re-fitted to the smaller mapping)
    let lines = split_lines(&mapping);
    let mut best_plan = plan.clone();
    let min_lines = ddmin(&lines, &mut budget, &mut |ls| {
        let m = join_lines(ls);
        match refit_plan(&m, &best_plan, &class) {
            Some(p) => {
                best_plan = p;
                true
            }
            None => false,
        }
    });
    let mut m = join_lines(&min_lines);
    let mut plan = match refit_plan(&m, &best_plan, &class) {
        Some(p) => p,
        None => {
            // should not happen; fall back to the unminimised mapping
            m = mapping.clone();
            plan
        }
    };
    // 3. numeric shrinking: earliest call index, simplest cap
    for cap in [None, Some(1usize), Some(2), Some(3), Some(4)] {
        let p = SinkPlan { cap, ..plan.clone() };
        if p != plan {
            if let Some(p2) = refit_plan(&m, &p, &class) {
                plan = p2;
                break;
            }
        }
    }
    let canon = canon_of(&m).unwrap_or_default();
    let o = run_write(&m, &plan);
    let message = judge(&canon, &o).map(|x| x.1).unwrap_or_else(|| v.message.clone());
    let mut case = case_json(&m, &plan);
    case["observed"] = json!({
        "result": format!("{:?}", o.result), "delivered_len": o.delivered.len(), "canonical_len": canon.len(),
        "delivered_hex": hex::encode(&o.delivered), "canonical_hex": hex::encode(&canon), "sink_calls": o.calls,
    });
    case["minimised_from"] = json!({"mapping_bytes": mapping.len(), "faults": SinkPlan::from_json(&v.case["plan"]).map(|p| p.faults.len())});
    Violation { property: v.property.clone(), run: v.run, class, message, case }
}

pub fn replay(doc: &Value) -> i32 {
    let case = &doc["case"];
    let (Some(mapping), Some(plan)) = (bytes_from_json(&case["mapping"]), SinkPlan::from_json(&case["plan"])) else {
        eprintln!("replay: malformed C15 case");
        return 2;
    };
    let canon = match canon_of(&mapping) {
        Ok(c) => c,
        Err(p) => {
            println!("control write panicked: {}", p);
            return 2;
        }
    };
    let o = run_write(&mapping, &plan);
    println!("replay C15: result={:?} delivered={}B canonical={}B sink_calls={} fired={:?}", o.result, o.delivered.len(), canon.len(), o.calls, o.fired);
    match judge(&canon, &o) {
        Some((class, msg)) => {
            println!("reproduced: class={} :: {}", class, msg);
            if doc["class"].as_str() == Some(class.as_str()) {
                1
            } else {
                println!("a violation reproduced, but of a different class than recorded ({:?})", doc["class"]);
                1
            }
        }
        None => {
            println!("not reproduced: the property holds on this case");
            0
        }
    }
}

// ---------------------------------------------------------------------------------------------

pub fn main(env: &Env) -> i32 {
    let mut rep = Report::new("C15", if env.thorough { "exploration" } else { "fault_enumeration" }, env);
    rep.expected_probes = vec!["fired.short_once", "fired.interrupted", "fired.hard_sticky", "fired.hard_transient", "fired.write_zero", "fired.disk_full", "fired.capped_calls", "probe.fault_inside_padding_write", "probe.fault_on_first_call", "probe.fault_on_last_call", "probe.fault_split_a_4_byte_field", "probe.first_fault_in.header", "probe.first_fault_in.classes", "probe.first_fault_in.pad1", "probe.first_fault_in.members", "probe.first_fault_in.pad2", "probe.first_fault_in.by_params", "probe.first_fault_in.pad3", "probe.first_fault_in.strings", "outcome.ok", "outcome.err_write_zero", "outcome.err_other", "mappings_with_padding"];
    rep.stubs = vec!["SimSink (the std::io::Write sink): chunk cap, short-once, Interrupted, hard error sticky/transient, Ok(0), disk-full".into()];
    rep.assumptions = vec![
        "the sink obeys the Write contract (reports exactly the bytes it accepted)".into(),
        "canonical bytes = what the same build writes into a Vec<u8> in the same process".into(),
        "flush is not a fault point (the property does not mention it)".into(),
        "WouldBlock/TimedOut and Ok(0) are not treated as 'non-retryable failure': only success-with-wrong-bytes is checked for them".into(),
    ];
    let seed = env.seed;
    let (st, mut vs, evaluations, distinct);
    if !env.thorough {
        let n_gen = env.scaled(160);
        let corpus: Vec<(String, Vec<u8>)> = gen::corpus(false).into_iter().filter(|(_, b)| b.len() < 3000).collect();
        let n_large = 32u64;
        let n_total = n_gen + corpus.len() as u64 + 1 + n_large;
        rep.rule = format!(
            "per mapping ({} seeded-generated with 0..6 classes x 0..8 members, {} small corpus files, 1 hand-written padding case): fault-free control; every chunk cap 1..16; \
             for caps {{1,3,4,7,inf}} EVERY sink call index x {{short-once, Interrupted x1, Interrupted x3, hard sticky, hard transient, soft transient, Ok(0) once, Ok(0) forever}}; for caps {{4,inf}} a chunk cap that changes at that call (with and without a hard error right after) and Interrupted bursts of 63/64/65/128/256/1000 at every call; for caps {{3,inf}} also 10 two-fault pairs at adjacent calls (i, i+1) and for cap inf every error kind sticky/transient at every call; \
             disk-full at EVERY capacity 0..len for caps {{inf,1,5}}, once answering StorageFull and once Ok(0) (a fixed-size buffer). Exhaustive for each mapping over that single-fault space. \
             Plus 32 large-section mappings (wide classes of 70..150 methods, 150..260 classes, or 2400..6500 classes): every chunk cap 1..16 fault-free and 160 seeded multi-fault plans each. \
             distinct_nontrivial = executions (distinct by construction per distinct mapping) in which a fault fired or the cap truncated a call.",
            n_gen,
            corpus.len()
        );
        rep.exhaustive = true;
        let r = run_indexed(n_total, env.workers, 1, |i, st, vs| {
            if i < n_gen {
                let mut rng = Rng::new(run_seed(seed, "C15.enum", i));
                let (_cfg, m) = gen::gen_case_small(&mut rng, 6, 8);
                enumerate_mapping(i, &m, st, vs, i < 4);
            } else if i < n_gen + corpus.len() as u64 {
                let (_, m) = &corpus[(i - n_gen) as usize];
                enumerate_mapping(i, m, st, vs, false);
            } else if i == n_gen + corpus.len() as u64 {
                let m = b"a.B -> a:\n    1:3:void x():10:12 -> m\n    void y() -> n\n    void z() -> o\n";
                enumerate_mapping(i, m, st, vs, true);
            } else {
                // large sections: every chunk cap fault-free + seeded multi-fault plans
                let mut rng = Rng::new(run_seed(seed, "C15.large", i));
                let m = gen_large(&mut rng);
                explore_mapping(i, &mut rng, &m, 160, st, vs);
            }
        });
        st = r.0;
        vs = r.1;
        evaluations = st.get("executions");
        distinct = st.keyed_sum() + st.distinct.len() as u64;
    } else {
        let n = env.scaled(1_000_000);
        let plans = 64u64;
        rep.rule = format!(
            "{} seeded runs; each run: swarm-configured mapping (0..12 classes x 0..16 members) + {} seeded multi-fault plans (cap drawn from {{inf,1,2-3,4-8,9-16,17-64}}, \
             1..6 faults from a per-run random subset of kinds, biased to first/last calls, 1/8 with a disk capacity); plus the quick tier's enumeration on 40 mappings and corpus files < 40 KB, plus 2 huge mappings (> 65 536 classes and members) under coarse chunk caps (4096, 65 536, 65 537, 2^20, inf) with single faults on the first 12 calls and disk-full at 4 capacities. \
             distinct_nontrivial = distinct (mapping, plan) digests in which a fault fired or the cap truncated a call (the digest set is capped at 4 million entries per run, so this is a lower bound).",
            n, plans
        );
        let corpus: Vec<(String, Vec<u8>)> = gen::corpus(false).into_iter().filter(|(_, b)| b.len() < 40_000).collect();
        let n_enum = 40 + corpus.len() as u64;
        let n_huge = 2u64;
        let r = run_indexed(n + n_enum + n_huge, env.workers, 4, |i, st, vs| {
            if i >= n + n_enum {
                // scale: several MiB per section, a handful of coarse plans
                let mut rng = Rng::new(run_seed(seed, "C15.huge", i));
                let m = gen::gen_huge(&mut rng);
                if let Ok(canon) = canon_of(&m) {
                    let layout = Header::read(&canon).map(|h| Layout::of(&h));
                    let cx = Ctx { mapping: &m, canon: &canon, layout, mdig: digest_bytes(&m), run: i };
                    let mut nontrivial = 0;
                    st.inc("mappings");
                    st.inc("huge_mappings");
                    let calls = run_write(&m, &SinkPlan::default()).calls;
                    for cap in [None, Some(4096usize), Some(65_536), Some(65_537), Some(1 << 20), Some(7 * 1024 + 3)] {
                        check_one(&cx, &SinkPlan { cap, ..Default::default() }, st, vs, &mut nontrivial);
                        for at in 0..calls.min(12) {
                            for kind in [FaultKind::Short(0x9E37_79B9), FaultKind::Interrupted(2), FaultKind::Hard(ErrK::StorageFull, true), FaultKind::Zero(false)] {
                                check_one(&cx, &SinkPlan { cap, faults: vec![Fault { at, kind }], disk_capacity: None, cap_switch: None, full_is_zero: false }, st, vs, &mut nontrivial);
                            }
                        }
                    }
                    for c in [canon.len() / 3, canon.len() - 1, 65_536, 1 << 20] {
                        check_one(&cx, &SinkPlan { cap: Some(1 << 16), faults: vec![], disk_capacity: Some(c.min(canon.len() - 1)), cap_switch: None, full_is_zero: false }, st, vs, &mut nontrivial);
                    }
                    st.keyed_max(cx.mdig, nontrivial);
                    st.run_done(cx.mdig);
                }
            } else if i < n {
                let mut rng = Rng::new(run_seed(seed, "C15.explore", i));
                let (_cfg, m) = gen::gen_case(&mut rng, 12, 16);
                explore_mapping(i, &mut rng, &m, plans, st, vs);
            } else if i < n + 40 {
                let mut rng = Rng::new(run_seed(seed, "C15.enum", i - n));
                let (_cfg, m) = gen::gen_case_small(&mut rng, 6, 8);
                enumerate_mapping(i, &m, st, vs, false);
            } else {
                let (_, m) = &corpus[(i - n - 40) as usize];
                let mut rng = Rng::new(run_seed(seed, "C15.corpus", i));
                explore_mapping(i, &mut rng, m, 400, st, vs);
            }
        });
        st = r.0;
        vs = r.1;
        evaluations = st.get("executions");
        distinct = st.distinct.len() as u64 + st.keyed_sum();
    }
    if st.get("control.write_to_vec_panicked") > 0 {
        println!("note: {} mappings skipped because the fault-free control write panicked (not a C15 verdict)", st.get("control.write_to_vec_panicked"));
    }
    let vs: Vec<Violation> = vs.drain(..).take(3).map(|v| minimise(&v)).collect();
    rep.write(&st, evaluations, distinct, vs.len(), None);
    println!(
        "C15 {}: mappings={} executions={} sink_calls={} nontrivial_distinct={} digest={:016x}",
        env.tier(),
        st.get("mappings"),
        evaluations,
        st.get("sink_calls"),
        distinct,
        st.digest_sum
    );
    conclude("C15", "sink", seed, &vs)
}
