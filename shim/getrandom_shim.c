/* LD_PRELOAD shim: the process's entropy source becomes a PRNG seeded by VERIF_HASH_SEED.
 * Rust's std seeds HashMap/HashSet RandomState keys from getrandom(2) (via the libc symbol),
 * so one VERIF_HASH_SEED = one exactly repeatable set of hash keys for the whole process.
 * Without VERIF_HASH_SEED the real entropy source is used. */
#define _GNU_SOURCE
#include <dlfcn.h>
#include <stdint.h>
#include <stdlib.h>
#include <string.h>
#include <sys/types.h>
#include <unistd.h>
#include <sys/syscall.h>

static uint64_t state;
static int inited;

static uint64_t next(void) {
    uint64_t z = (state += 0x9E3779B97F4A7C15ULL);
    z = (z ^ (z >> 30)) * 0xBF58476D1CE4E5B9ULL;
    z = (z ^ (z >> 27)) * 0x94D049BB133111EBULL;
    return z ^ (z >> 31);
}

static int seeded(void) {
    if (!inited) {
        const char *s = getenv("VERIF_HASH_SEED");
        inited = s ? 1 : -1;
        if (s) state = strtoull(s, 0, 10) * 0x2545F4914F6CDD1DULL + 1;
    }
    return inited == 1;
}

static void fill(void *buf, size_t len) {
    unsigned char *p = buf;
    while (len) {
        uint64_t v = next();
        size_t n = len < 8 ? len : 8;
        memcpy(p, &v, n);
        p += n;
        len -= n;
    }
}

ssize_t getrandom(void *buf, size_t buflen, unsigned int flags) {
    if (seeded()) {
        fill(buf, buflen);
        return (ssize_t)buflen;
    }
    return syscall(SYS_getrandom, buf, buflen, flags);
}

int getentropy(void *buf, size_t len) {
    if (seeded()) {
        fill(buf, len);
        return 0;
    }
    return syscall(SYS_getrandom, buf, len, 0) == (long)len ? 0 : -1;
}
