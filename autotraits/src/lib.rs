//! C20, compile-time clause: the public handle, iterator and result types are Send + Sync.
//! `cargo check` on this crate failing with E0277 on one of the lines below IS the violation.
#![allow(dead_code)]

use proguard::*;

fn ok<T: Send + Sync>() {}
fn ok_val<T: Send + Sync>(_: &T) {}

pub fn handles() {
    ok::<ProguardMapper<'static>>();
    ok::<ProguardCache<'static>>();
    ok::<ProguardMapping<'static>>();
}

pub fn iterators(cache: &'static ProguardCache<'static>, mapper: &'static ProguardMapper<'static>, frame: &StackFrame<'static>) {
    ok::<ProguardRecordIter<'static>>();
    ok::<RemappedFrameIter<'static>>();
    // the cache's frame iterator type is not nameable from outside the crate
    let it = cache.remap_frame(frame);
    ok_val(&it);
    let it2 = mapper.remap_frame(frame);
    ok_val(&it2);
}

pub fn results() {
    ok::<StackFrame<'static>>();
    ok::<StackTrace<'static>>();
    ok::<Throwable<'static>>();
    ok::<DeobfuscatedSignature>();
    ok::<MappingSummary<'static>>();
    ok::<ProguardRecord<'static>>();
    ok::<LineMapping>();
    ok::<ParseError<'static>>();
    ok::<ParseErrorKind>();
    ok::<CacheError>();
    ok::<CacheErrorKind>();
}

/// Sending (not only sharing): values can be moved into another thread.
pub fn send_values(mapper: ProguardMapper<'static>, cache: ProguardCache<'static>, mapping: ProguardMapping<'static>) {
    std::thread::spawn(move || {
        let _ = (mapper.remap_class("a"), cache.remap_class("a"), mapping.is_valid());
    });
}
